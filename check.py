#!/usr/bin/env python3
"""Entry point of every registered check:  python3 check.py <property> --tier quick|thorough

Decides the given property for the *current working tree of /repo* by static
analysis only (no library code is executed).  Exit 0: property held on
everything analysed.  Exit 1 + `VIOLATION property=<id> replay=<path>`: a
specific construct breaks it.  Exit 2: the machinery itself failed (fail
closed, no verdict)."""
import argparse
import os
import sys
import traceback

sys.path.insert(0, os.path.join(os.path.dirname(os.path.abspath(__file__)), "tools"))

from vf import common as C          # noqa: E402
from vf import props                # noqa: E402
from vf.run_a import EngineError    # noqa: E402


def main():
    ap = argparse.ArgumentParser()
    ap.add_argument("property")
    ap.add_argument("--tier", default=os.environ.get("VERIF_TIER", "quick"), choices=["quick", "thorough"])
    ap.add_argument("--replay", default=None, help="print a stored violation report")
    a = ap.parse_args()
    if a.replay:
        print(open(a.replay).read())
        return 0
    pid = a.property.upper()
    fn = props.PROPERTIES.get(pid)
    if fn is None:
        print("property %s is not claimed by this framework (see MANIFEST.json not_applicable)" % pid)
        return 2
    rep = C.Report(pid, a.tier)
    try:
        level, coverage, assumptions = fn(rep, a.tier)
    except EngineError as e:
        print("ENGINE-ERROR property=%s: %s" % (pid, e))
        return 2
    except Exception:
        traceback.print_exc()
        print("ENGINE-ERROR property=%s: internal failure" % pid)
        return 2
    return rep.finish(level, coverage, assumptions)


if __name__ == "__main__":
    sys.exit(main())
