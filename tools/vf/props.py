"""Per-property composition of engine obligations (DESIGN.md section 5)."""
from . import common as C
from . import engine_s
from . import engine_t
from . import run_a
from . import run_e
from . import run_l

ARITH_BASES = {"neg", "abs", "add", "sub", "mul", "div", "mul_int", "div_int"}
REM_BASES = {"rem", "rem_int", "rem_euclid", "rem_euclid_int", "div_euclid", "div_euclid_int"}
ROUND_BASES = {"ceil", "floor", "round", "round_ties_to_even", "round_to_zero", "int", "frac"}

TRUST_E = [
    "rustc 1.95 + LLVM preserve semantics (translation-validation style trust: both sides go through the same pipeline)",
    "the canonicaliser (names, order of pure instructions, commutative operand order, flags, metadata and undef/poison don't-care payloads are ignored; side effects and terminators are kept in order)",
    "the specification lines of tools/vf/eq_specs.py (each <= 3 lines over primitive integer operations)",
    "only obligations discharged on the repaired pinned tree are registered (tables/eq_obligations.json); equality is sufficient, not necessary",
]
S_WIDEST_FLOORS = {"consumers": 420, "risky": 420}

S_FLAG_TEXT = ("S-flag (error discipline over the crate's MIR): no call of an overflowing_* function discards its "
               "flag, except the reviewed wrapping_ forms of tables/flag_drops.json -- a necessary condition for every "
               "overflow verdict assembled from those flags.")

TRUST_A = [
    "rustc 1.95 + LLVM do not delete a feasible panic (same trust as any user of the compiled crate)",
    "the IR reader finds every call (positive/negative control roots are checked in every crate on every run)",
    "hand-argued invariants of tables/panic_triage.json (each entry: one reason; keys carry no positions)",
    "library boundary: precompiled core/alloc/std functions are not descended into; reached callees must be listed in tables/library_callees.json",
]


def _is_arith(m):
    if m["group"] == "arith":
        return m.get("base") in ARITH_BASES
    if m["group"] == "ops":
        return m.get("base") in ("neg", "add", "sub", "mul", "div")
    if m["group"] == "trait":
        return m.get("base") in ARITH_BASES
    return False


def _is_rem(m):
    if m["group"] == "rem":
        return True
    if m["group"] == "ops":
        return m.get("base") == "rem"
    if m["group"] == "trait":
        return m.get("base") in REM_BASES
    return False


def _is_round(m):
    if m["group"] == "round":
        return True
    if m["group"] == "trait":
        return m.get("base") in ROUND_BASES
    return False


def _merge(*covs):
    out = {"engines": []}
    for c in covs:
        if c:
            out["engines"].append(c)
    return out


def _explain(text, engines):
    cov = _merge(*engines)
    cov["explanation"] = text
    s = []
    for e in cov["engines"]:
        s.extend(e.get("samples", [])[:3])
    cov["samples"] = s or [{"note": "no sample"}]
    ob = sum(e.get("obligations", 0) for e in cov["engines"])
    if ob:
        cov["obligations"] = ob
        cov["discharged"] = sum(e.get("discharged", 0) for e in cov["engines"])
    return cov


def _pol_arith(p):
    if p.family not in ("E-pol", "E-sat", "E-del"):
        return False
    item = p.cls.split("|", 1)[1]
    item = item.split("__")[0]
    if item.endswith("_vs_checked"):
        item = item[:-len("_vs_checked")]
    for pre in ("checked_", "wrapping_", "saturating_", "overflowing_", "Fixed_", "FixedSigned_", "FixedUnsigned_"):
        if item.startswith(pre):
            item = item[len(pre):]
    for pre in ("checked_", "wrapping_", "saturating_", "overflowing_"):
        if item.startswith(pre):
            item = item[len(pre):]
    return item in ARITH_BASES


def _pol_base(p, bases, families=("E-pol", "E-sat", "E-del")):
    if p.family not in families:
        return False
    item = p.cls.split("|", 1)[1].split("__")[0]
    if item.endswith("_vs_checked"):
        item = item[:-len("_vs_checked")]
    for _ in range(2):
        for pre in ("checked_", "wrapping_", "saturating_", "overflowing_", "Fixed_", "FixedSigned_", "FixedUnsigned_"):
            if item.startswith(pre):
                item = item[len(pre):]
    return item in bases


def check_C02(rep, tier):
    a = run_a.run(rep, tier, ["inh", "ops", "trait"], _is_arith, "C02-arith")
    e = run_e.run(rep, tier, ["pol", "del", "div", "alg"], "C02-agree",
                  select=lambda p: _pol_base(p, ARITH_BASES) or p.family in ("E-alg", "E-mul")
                  or p.cls in ("E-div|overflowing_div", "E-div|wrapping_div"))
    sf = engine_s.s_flag(rep, "C02", "C02")
    cov = _explain(
        "Engine E decides that the forms agree with each other for every operand: checked_X is Some/None of the "
        "(value, flag) of overflowing_X (None also for a zero divisor), wrapping_X is its value, the unsigned and the "
        "sign-determined signed saturations clamp to the side of the exact result, and every trait method is the "
        "inherent one. " +
        "Engine A decides, for every operand at once, that no checked_/saturating_/wrapping_/overflowing_ form of "
        "neg, abs, add, sub, mul, div, mul_int, div_int can reach a panic (non-zero divisor precondition encoded in the "
        "root), and that the plain operators can only reach their documented overflow / zero-divisor panics, never an "
        "internal helper precondition. Not decided: that the shared (value, flag) is the exact result for mul/div "
        "(see C01), saturation sides that do not normalise. The shared (value, flag) of multiplication and division "
        "is itself decided against the exact result where C01 decides it (double-width specifications for 8..64 bits, "
        "the limb algebra for the 128-bit product). " + S_FLAG_TEXT, [a, e, sf])
    return "other", cov, TRUST_A + TRUST_E


def check_C07(rep, tier):
    a = run_a.run(rep, tier, ["inh", "ops", "trait"], _is_rem, "C07-rem")
    e = run_e.run(rep, tier, ["rem", "pol", "del"], "C07-rem",
                  select=lambda p: p.family == "E-rem" or _pol_base(p, REM_BASES))
    sf = engine_s.s_flag(rep, "C07", "C07")
    cov = _explain(
        "Engine E: `%`/checked_rem and rem_euclid/checked_rem_euclid with a fixed divisor are the bit-level "
        "wrapping_rem / wrapping_rem_euclid of the primitive integer (which is a - b*trunc(a/b) resp. the Euclidean "
        "remainder at a common scale, including the -1ulp divisor), on every layout where the pair normalises; "
        "checked_/wrapping_ forms agree with overflowing_ ones. " +
        "Engine A: no checked/saturating/wrapping/overflowing remainder or Euclidean form (fixed or integer divisor) "
        "reaches a panic for a non-zero divisor; the plain forms reach only the documented zero-divisor / overflow panics. "
        "Not decided: the values of div_euclid* and of the integer-divisor forms. " + S_FLAG_TEXT,
        [a, e, sf])
    return "other", cov, TRUST_A + TRUST_E


def check_C06(rep, tier):
    a = run_a.run(rep, tier, ["inh", "trait"], _is_round, "C06-round")
    e = run_e.run(rep, tier, ["mask", "pol", "del", "wrap"], "C06-round",
                  select=lambda p: (p.family == "E-mask" and not p.cls.endswith(("is_negative", "is_positive")))
                  or _pol_base(p, ROUND_BASES)
                  or (p.family == "E-wrap" and p.cls.split("|", 1)[1] in ROUND_BASES))
    sf = engine_s.s_flag(rep, "C06", "C06")
    cov = _explain(
        "Engine E on all 506 layouts: int, frac, floor, ceil, round, round_ties_to_even, round_to_zero equal their "
        "definitional specifications over the bits (floor = bits & -2^f; the others as case analyses over floor and "
        "floor + 1, with the overflow flag computed exactly, including 0 and 1 integer bits) wherever the pair "
        "normalises (without fraction bits: round and round_ties_to_even are the identity and never overflow), and "
        "the checked_/wrapping_ forms are Some/None resp. the value of the overflowing_ ones; the rounding methods "
        "of the Fixed trait and of Wrapping<F> are the inherent (wrapping) ones. " +
        "Engine A: the checked/saturating/wrapping/overflowing rounding forms, int, frac and round_to_zero are "
        "panic-free for every value (including 0 and 1 integer bits); ceil/floor/round reach only their documented "
        "debug overflow panic. Not decided: layouts listed as exceptions in the registry. " + S_FLAG_TEXT, [a, e, sf])
    return "other", cov, TRUST_A + TRUST_E


def check_C08(rep, tier):
    a = run_a.run(rep, tier, ["parse"], lambda m: m["group"] == "parse", "C08-parse")
    sf = engine_s.s_flag(rep, "C08", "C08")
    cov = _explain(
        "Engine A on from_str, from_str_{binary,octal,hex} and their saturating_/wrapping_/overflowing_ forms with an "
        "unconstrained &str: the only panic-capable constructs reachable are the table entries, each argued infeasible "
        "(digit validity from parse_bounds, slice bounds, 10^DEC ranges). Only the clause 'no input makes the parser "
        "panic' is decided; rounding of literals is numeric and not decided. " + S_FLAG_TEXT +
        " For the parser this covers the carries of the digit accumulation (a dropped flag makes an out-of-range "
        "literal parse as in range).", [a, sf])
    return "other", cov, TRUST_A


def check_C09(rep, tier):
    a = run_a.run(rep, tier, ["fmt"], lambda m: m["group"] == "fmt", "C09-fmt")
    sf = engine_s.s_flag(rep, "C09", "C09")
    cov = _explain(
        "Engine A on Display/Debug/Binary/Octal/LowerHex/UpperHex::fmt with an unconstrained &mut Formatter (width, "
        "precision, fill, flags symbolic): only table entries (buffer index arithmetic, argued from int_digits + "
        "frac_digits <= 128 and frac_digits <= precision) are reachable. Only the clause 'no value or flag combination "
        "panics' is decided; digit correctness and round-tripping are numeric and not decided. " + S_FLAG_TEXT, [a, sf])
    return "other", cov, TRUST_A + ["Formatter::precision()/width() are at most 65535 on this toolchain (stored as u16)",
                                    "writes into the Formatter's sink go through indirect calls and are outside the analysis"]


def check_C03(rep, tier):
    a = run_a.run(rep, tier, ["cmp"], lambda m: m["group"] == "cmp", "C03-cmp")
    sw = engine_s.s_widest(rep, "C03", floors=S_WIDEST_FLOORS)
    e = run_e.run(rep, tier, ["cmp", "cmpx"], "C03-same", select=lambda p: p.family in ("E-cmp", "E-cmpx"))
    cov = _explain(
        "S-widest (necessary condition): every comparison body that truncates the re-expressed right-hand side "
        "accounts for the destination sign bit, otherwise an operand in [2^(n-1), 2^n) is read as negative. "
        "Engine E: same-type Ord::cmp, Hash::hash (and ==, <, ... where they normalise) are those of the bits; "
        "sibling cross-check between types: `a < b` is `b > a` for every pair, and each operator agrees with the "
        "separately implemented partial_cmp, and with the exact comparison of the two bit patterns aligned in a "
        "128-bit integer, at the (few) pairs where the two bodies normalise. " +
        "Engine A: every PartialEq/PartialOrd method between fixed types, primitive integers and floats (both operand "
        "orders), Ord::cmp and Hash::hash is panic-free for every operand. Not decided: the ordering logic itself "
        "(lost-bits direction, overflow short-circuit) and NaN/infinity classification.", [sw, e, a])
    return "other", cov, TRUST_A + TRUST_E


def check_C04(rep, tier):
    def sel(m):
        if m["group"] == "from":          # infallible From / LossyFrom impls between fixed types and integers
            ex = m.get("extra") or {}
            return not ({ex.get("src"), ex.get("dst")} & {"f32", "f64"})
        return m["group"] == "conv" and m.get("targ") not in ("f32", "f64")
    a = run_a.run(rep, tier, ["conv"], sel, "C04-conv")
    t = engine_t.run(rep, tier, "C04")
    sw = engine_s.s_widest(rep, "C04", floors=S_WIDEST_FLOORS)
    e = run_e.run(rep, tier, ["conv", "pol"], "C04-conv",
                  select=lambda p: p.family == "E-conv" or _pol_base(p, {"from_num", "to_num"}, ("E-pol",)))
    sf = engine_s.s_flag(rep, "C04", "C04")
    cov = _explain(
        "Engine T: From / LossyFrom impls exist for no (source, destination) pair at which the conversion could "
        "overflow or (From) lose bits, for all fixed x fixed pairs probed and every primitive in both directions. "
        "Engine E: From, LossyFrom, wrapping_to_num and wrapping_from_num equal 'extend or truncate and shift toward "
        "minus infinity' at the boundary pairs; the flag of overflowing_to_num / overflowing_from_num (fixed and "
        "primitive-integer operands) equals the definitional range test 'floor(bits * 2^shift) lies in the "
        "destination range' (eq_specs.fits_expr, validated against exact integer arithmetic by "
        "tools/dev/validate_fits.py) wherever the pair normalises -- every unsigned source, about half of the signed "
        "ones; checked_ forms are None exactly on that flag and saturating_ forms return the bound on the value's "
        "side; checked_/wrapping_ forms agree with overflowing_. S-widest: the "
        "destination-side sign check is present in every consumer. " +
        "Engine A: checked_/saturating_/wrapping_/overflowing_ from_num/to_num between fixed layouts and primitive "
        "integers/bool never panic; from_num/to_num reach only the documented debug overflow assertion. Not decided: "
        "the overflow flag at the pairs listed as exceptions in the registry (signed sources whose leading-bit count "
        "LLVM does not fold into a range test), pairs away from the boundary set. " + S_FLAG_TEXT, [t, e, sw, a, sf])
    return "other", cov, TRUST_A + TRUST_E + ["the arithmetic availability specification in tools/vf/engine_t.py (from_is_safe / lossy_is_safe)"]


def check_C11(rep, tier):
    a = run_a.run(rep, tier, ["inh", "conv", "parse", "fmt", "ops", "cmp", "wrap", "trait", "transc"],
                  lambda m: True, "C11-all")
    sc = engine_s.s_cfg(rep, "C11")
    cov = _explain(
        "S-cfg: no `debug_assertions` / `overflow_checks` cfg outside the debug_assert macros, so a call that returns "
        "in both profiles computed the same integers (unchecked arithmetic wraps). " +
        "Engine A over every public root under the checking profile (debug-assertions + overflow-checks on, the "
        "superset of panic sources): checked/saturating/wrapping/overflowing/Result/Option-returning functions, "
        "comparisons, formatting, Wrapping and the math functions have no reachable profile-dependent panic; "
        "operations without overflow handling reach only the documented overflow / zero-divisor / non-finite "
        "panics raised in the operation itself, never an internal helper precondition.", [a, sc])
    return "other", cov, TRUST_A


def check_C12(rep, tier):
    a = run_a.run(rep, tier, ["transc"], lambda m: m["group"] == "transc", "C12-transc")
    cov = _explain(
        "Engine A on sqrt, log2, ln, exp, pow, powi (unconstrained operands and exponent) and sin/cos/tan under the "
        "property's magnitude guards, checking profile (superset of the unchecked profile's panic sources): no panic is "
        "reachable except table entries argued infeasible by magnitude invariants.", [a])
    return "other", cov, TRUST_A + ["tan's division is infeasible only inside |tan x| <= 64 and assuming sin/cos are within 2^-16 of the truth (C16, not decided here)"]


def check_C18(rep, tier):
    a = run_a.run(rep, tier, ["wrap"], lambda m: m["group"] == "wrap", "C18-wrap")
    e = run_e.run(rep, tier, ["wrap"], "C18-wrap", select=lambda p: p.family == "E-wrap")
    cov = _explain(
        "Engine E: every Wrapping<F> item (operators in value, assigning and by-reference forms, fixed and integer "
        "right-hand sides, shifts by all 12 integer types, inherent methods, sum/product, FromStr, from_num/to_num) is "
        "the same function as the corresponding wrapping operation of F (shift amounts reduced modulo the width). " +
        "Engine A: no item of Wrapping<F> (operators, assigning and by-reference forms, integer right-hand sides, "
        "shifts by all 12 integer types, methods, sum/product, parsing, from_num/to_num) reaches a panic under the "
        "checking profile except for a zero divisor (encoded as precondition) or a non-finite float in from_num.", [e, a])
    return "other", cov, TRUST_A + TRUST_E


def check_C01(rep, tier):
    def sel(m):
        return m["group"] in ("arith", "ops", "trait") and m.get("base") in ("mul", "div")
    a = run_a.run(rep, tier, ["inh", "ops", "trait"], sel, "C01-muldiv")
    e = run_e.run(rep, tier, ["div", "pol", "alg"], "C01-div",
                  select=lambda p: p.family in ("E-div", "E-mul", "E-alg") or _pol_base(p, {"mul", "div"}, ("E-pol",)))
    cov = _explain(
        "Engine E, 8..64-bit families: wrapping_div and overflowing_div (value and flag) equal trunc((a * 2^F) / b) "
        "computed in the double-width integer, where it is exact; wrapping_mul / overflowing_mul (value and flag) equal "
        "(a * b) >> F and its range test in the double-width integer (term normal form with exact products and bit "
        "slices); checked_mul / checked_div are tied to the overflowing forms. 128-bit families: the four-limb "
        "schoolbook product with its carries and the limb recombination are rewritten into polynomials over the "
        "operands (tools/vf/engine_e3.py, limb algebra) and equal the bit slice [F, F+128) of the exact 256-bit product, "
        "with the overflow flag equal to the exact range test, for every operand pair at every layout with F >= 1 "
        "where the rewriting succeeds. Engine A: no multiplication or division form can panic apart from the "
        "documented cases. Not decided: the 256/128-bit long division of the 128-bit quotient (wide_div).", [e, a])
    return "other", cov, TRUST_A + TRUST_E


def check_C17(rep, tier):
    l = run_l.run(rep, tier)
    cov = dict(l)
    cov["obligations"] = l["roots_analysed"]
    cov["discharged"] = l["roots_analysed"] - len({v["detail"]["root"] for v in rep.violations + rep.known if v.get("detail")})
    cov["checker_cmd"] = "opt -passes='print<loops>,print<scalar-evolution>' (nightly llvm-tools) + tools/vf/engine_l.py"
    cov["trusted_base"] = [
        "rustc/LLVM preserve semantics; the loop-preserving flags are validated by control loops on every run",
        "LLVM ScalarEvolution's constant max backedge-taken counts are sound upper bounds",
        "the halving rule: x' = (x >> k) [+ (x & (2^k-1))] with continue-condition x' > C >= 1 strictly decreases x, at most bitwidth iterations",
        "loops the optimiser deletes outright (closed-form results) are not counted: the bound is for the optimised x86-64 build",
        "compiler-builtins 128-bit division/multiplication helpers are treated as constant-time library calls",
    ]
    return "proof", cov, cov["trusted_base"]


def check_C10(rep, tier):
    ctx = run_a.context(tier)
    sh = engine_s.s_shape(rep, "C10", ctx["api"])
    e = run_e.run(rep, tier, ["codec", "serde"], "C10-codec", select=lambda p: p.family == "E-codec")
    cov = _explain(
        "Engine E: encode_to / size_hint / decode / max_encoded_len of every fixed type are those of the inner integer "
        "(decode = the integer's decode mapped through from_bits, so fewer bytes fail exactly as for the integer; "
        "max_encoded_len folds to width/8), the byte conversions are the primitive's, from_bits/to_bits are the "
        "identity, and the encoding is identical across fractional-bit counts of one family. With the crate's `serde` "
        "feature on (a second harness build): serialising a fixed value or a Wrapping of it through a recording "
        "Serializer is serialize_struct(<name>, 1) + serialize_field(\"bits\", &<the underlying integer>) + end, and "
        "deserialising the positional form reads exactly that integer type (8..64-bit families; the 128-bit bodies do "
        "not normalise). S-shape: each struct is "
        "#[repr(transparent)] over [integer, PhantomData] with derived codec impls and no helper attributes.", [e, sh])
    cov["checker_cmd"] = "python3 check.py C10 (tools/vf/engine_e.py on post-LTO IR + tools/vf/engine_s.py on rustdoc-JSON)"
    cov["trusted_base"] = TRUST_E + ["little-endian target: to_le_bytes and to_ne_bytes coincide, an le/ne mix-up is invisible (and behaviourally absent)"]
    return "proof", cov, cov["trusted_base"]


PROPERTIES = {
    "C01": check_C01, "C02": check_C02, "C03": check_C03, "C04": check_C04, "C06": check_C06,
    "C07": check_C07, "C08": check_C08, "C10": check_C10, "C09": check_C09, "C11": check_C11, "C12": check_C12,
    "C17": check_C17, "C18": check_C18,
}
