"""Engine L: static loop bounds for the math functions.

The harness is built with the transformations that change trip counts
switched off (no unrolling, peeling, vectorisation, exit-value rewriting);
LLVM's LoopInfo and ScalarEvolution printers (nightly `opt`) are run on a
slice of the module that contains only the functions reachable from the
roots; every loop must have a constant maximum trip count, or match the
halving recurrence `x' = (x >> k) [+ (x & (2^k-1))]` with continue-condition
`x' > C >= 1`."""
import os
import re
import subprocess

from . import common as C
from . import engine_a
from . import llir

RE_LOOPINFO = re.compile(r"^Loop info for function '(.*)':$")
RE_LOOPAT = re.compile(r"^(\s*)Loop at depth (\d+) containing: (.*)$")
RE_SCEV_FN = re.compile(r"^Determining loop execution counts for: @(.*)$")
RE_SCEV_MAX = re.compile(r"^Loop (%\S+|%\"[^\"]+\"): constant max backedge-taken count is i\d+ (-?\d+)")
RE_SCEV_UNP = re.compile(r"^Loop (%\S+|%\"[^\"]+\"): Unpredictable constant max backedge-taken count")
RE_SCEV_SYM = re.compile(r"^Loop (%\S+|%\"[^\"]+\"): symbolic max backedge-taken count is (.*)$")
RE_LABEL = re.compile(r'^("[^"]+"|[\w.$-]+):')
RE_BLOCKREF = re.compile(r'%"[^"]+"|%[\w.$-]+')

UNBOUNDED = float("inf")


def _unq(s):
    s = s.strip()
    if s.startswith("%"):
        s = s[1:]
    if s.startswith('"'):
        s = s[1:-1]
    return s


class Loop:
    def __init__(self, depth, header, blocks):
        self.depth = depth
        self.header = header
        self.blocks = blocks          # names, includes nested loops' blocks
        self.children = []
        self.parent = None
        self.scev_max = None          # int or None
        self.symbolic = None
        self.bound = None
        self.rule = None
        self.latches = []
        self.dbg = None


def parse_opt_output(text):
    """-> {function: [top-level Loop, ...]} with SCEV facts attached"""
    loops = {}
    by_header = {}
    cur = None
    stack = []
    mode = None
    for ln in text.split("\n"):
        m = RE_LOOPINFO.match(ln)
        if m:
            cur = m.group(1)
            loops.setdefault(cur, [])
            stack = []
            mode = "li"
            continue
        m = RE_SCEV_FN.match(ln)
        if m:
            cur = m.group(1).strip('"')
            mode = "scev"
            continue
        if mode == "li":
            m = RE_LOOPAT.match(ln)
            if m and cur is not None:
                depth = int(m.group(2))
                items = []
                header = None
                latches = []
                for part in _split_blocks(m.group(3)):
                    name = re.sub(r'(<\w+>)+$', '', part)
                    flags = part[len(name):]
                    b = _unq(name)
                    items.append(b)
                    if "<header>" in flags:
                        header = b
                    if "<latch>" in flags:
                        latches.append(b)
                lp = Loop(depth, header, items)
                lp.latches = latches
                while stack and stack[-1].depth >= depth:
                    stack.pop()
                if stack:
                    lp.parent = stack[-1]
                    stack[-1].children.append(lp)
                else:
                    loops[cur].append(lp)
                stack.append(lp)
                by_header[(cur, header)] = lp
            continue
        if mode == "scev" and cur is not None:
            m = RE_SCEV_MAX.match(ln)
            if m:
                lp = by_header.get((cur, _unq(m.group(1))))
                if lp is not None:
                    v = int(m.group(2))
                    lp.scev_max = v if v >= 0 else None
                continue
            m = RE_SCEV_SYM.match(ln)
            if m:
                lp = by_header.get((cur, _unq(m.group(1))))
                if lp is not None:
                    lp.symbolic = m.group(2)[:200]
    return loops


def _split_blocks(s):
    out = []
    cur = ""
    inq = False
    for ch in s:
        if ch == '"':
            inq = not inq
            cur += ch
        elif ch == "," and not inq:
            out.append(cur)
            cur = ""
        else:
            cur += ch
    if cur:
        out.append(cur)
    return out


class FuncBody:
    """blocks -> instruction lines of one function"""

    def __init__(self, lines):
        self.blocks = {}
        self.order = []
        cur = None
        unnamed_first = True
        for ln in lines[1:-1]:
            m = RE_LABEL.match(ln)
            if m:
                cur = m.group(1).strip('"')
                self.blocks[cur] = []
                self.order.append(cur)
                continue
            if cur is None:
                # entry block without a label
                cur = "<entry>"
                self.blocks[cur] = []
                self.order.append(cur)
            s = ln.strip()
            if s and not s.startswith(";"):
                self.blocks[cur].append(s)

    def block_of_line(self, text):
        for b, ins in self.blocks.items():
            if text in ins:
                return b
        return None


def halving_rule(body, lp):
    """Does loop `lp` halve a header phi on every iteration and continue only
    while the halved value exceeds a constant >= 1?  -> (ok, bitwidth, why)"""
    if len(lp.latches) != 1:
        return False, None, "not a single latch"
    latch = lp.latches[0]
    ins = body.blocks.get(latch)
    hdr = body.blocks.get(lp.header)
    if not ins or hdr is None:
        return False, None, "blocks not found"
    term = ins[-1]
    m = re.match(r'^br i1 (%[\w.$-]+), label (%"[^"]+"|%[\w.$-]+), label (%"[^"]+"|%[\w.$-]+)', term)
    if not m:
        return False, None, "latch terminator is not a conditional branch"
    cond, t_true, t_false = m.group(1), _unq(m.group(2)), _unq(m.group(3))
    defs = {}
    for b in lp.blocks:
        for s in body.blocks.get(b, []):
            mm = re.match(r'^(%[\w.$-]+) = (.*)$', s)
            if mm:
                defs[mm.group(1)] = mm.group(2)
    cdef = defs.get(cond)
    if not cdef:
        return False, None, "condition not defined in loop"
    mm = re.match(r'^icmp (?:samesign )?(\w+) i(\d+) (%[\w.$-]+), (-?\d+)', cdef)
    if not mm:
        return False, None, "condition is not a compare with a constant"
    pred, width, val, cst = mm.group(1), int(mm.group(2)), mm.group(3), int(mm.group(4))
    cont_on_true = (t_true == lp.header)
    cont_on_false = (t_false == lp.header)
    if cont_on_true == cont_on_false:
        return False, None, "latch does not branch to header/exit"
    # normalise to: continue iff val > lo   (lo >= 1)
    if cont_on_true:
        if pred in ("ugt", "sgt"):
            lo = cst
        elif pred in ("uge", "sge"):
            lo = cst - 1
        else:
            return False, None, "continue predicate %s" % pred
    else:
        if pred in ("ule", "sle"):
            lo = cst
        elif pred in ("ult", "slt"):
            lo = cst - 1
        else:
            return False, None, "exit predicate %s" % pred
    if lo < 1:
        return False, None, "threshold < 1"
    # val must be the next value of a header phi x:  val = (x >> k) [+ (x & (2^k-1))]
    phis = {}
    for s in hdr:
        pm = re.match(r'^(%[\w.$-]+) = phi i(\d+) (.*)$', s)
        if pm:
            inc = re.findall(r'\[ ([^,\]]+), (%"[^"]+"|%[\w.$-]+) \]', pm.group(3))
            phis[pm.group(1)] = {_unq(b): v.strip() for (v, b) in inc}
    x = None
    for p, inc in phis.items():
        if inc.get(latch) == val:
            x = p
            break
    if x is None:
        return False, None, "compared value does not feed a header phi"
    vdef = defs.get(val, "")
    sh = None
    am = re.match(r'^add (?:nuw )?(?:nsw )?i\d+ (%[\w.$-]+), (%[\w.$-]+)', vdef)
    if am:
        a, b = defs.get(am.group(1), ""), defs.get(am.group(2), "")
        for (p, q) in ((a, b), (b, a)):
            sm = re.match(r'^(?:lshr|ashr) (?:exact )?i\d+ (%[\w.$-]+), (\d+)', p)
            nm = re.match(r'^and i\d+ (%[\w.$-]+), (\d+)', q)
            if sm and nm and sm.group(1) == x and nm.group(1) == x:
                k = int(sm.group(2))
                if k >= 1 and int(nm.group(2)) == (1 << k) - 1:
                    sh = k
    else:
        sm = re.match(r'^(?:lshr|ashr) (?:exact )?i\d+ (%[\w.$-]+), (\d+)', vdef)
        if sm and sm.group(1) == x and int(sm.group(2)) >= 1:
            sh = int(sm.group(2))
    if sh is None:
        return False, None, "next value is not a halving of the phi"
    return True, width, "x' = (x >> %d) [+ low bits], continue iff x' > %d" % (sh, lo)


class LoopAnalysis:
    def __init__(self, ll_path, root_syms, hprefix):
        self.an = engine_a.Analyser(ll_path, hprefix, [])
        self.mod = self.an.mod
        self.roots = [s for s in root_syms]
        self.keep = set()
        self.reach = {}
        for r in self.roots:
            name = self.mod.resolve(r)
            f = self.mod.funcs.get(name)
            if f is None or f.is_decl:
                continue
            seen = set()
            stack = [f]
            while stack:
                g = stack.pop()
                if g.name in seen:
                    continue
                seen.add(g.name)
                for (c, h) in self.an.local(g)[1]:
                    stack.append(h)
            self.reach[r] = seen
            self.keep |= seen
        self.loops = {}
        self.bodies = {}
        self._work = {}

    def run_opt(self, workdir, tag):
        sl = os.path.join(workdir, tag + ".slice.ll")
        with open(sl, "w") as fh:
            fh.write(self.mod.slice_text(self.keep))
        opt = C.nightly_tool("opt")
        p = subprocess.run([opt, "-passes=print<loops>,print<scalar-evolution>", "-disable-output", sl],
                           stdout=subprocess.PIPE, stderr=subprocess.PIPE, text=True)
        if p.returncode != 0:
            raise RuntimeError("opt failed on slice: " + p.stderr[-2000:])
        self.loops = parse_opt_output(p.stderr)
        os.unlink(sl)
        for fn in self.keep:
            if fn not in self.loops:
                raise RuntimeError("LoopInfo printed nothing for kept function " + fn)

    def body(self, fn):
        b = self.bodies.get(fn)
        if b is None:
            f = self.mod.funcs[fn]
            b = self.bodies[fn] = FuncBody(self.mod.body(f))
        return b

    def decide_loop(self, fn, lp, budget=None):
        """sets lp.bound / lp.rule: the smaller of SCEV's constant maximum trip
        count and the halving rule's bit width"""
        if lp.bound is not None:
            return
        ok, width, why = halving_rule(self.body(fn), lp)
        cands = []
        if lp.scev_max is not None:
            cands.append((lp.scev_max + 1, "scev: constant max backedge-taken count %d" % lp.scev_max))
        if ok:
            cands.append((width, "halving: " + why))
        if cands:
            lp.bound, lp.rule = min(cands, key=lambda c: c[0])
        else:
            lp.bound = UNBOUNDED
            lp.rule = "unbounded: SCEV has no constant maximum; halving rule: %s" % why

    def _loop_of_block(self, fn):
        """block name -> innermost loop"""
        out = {}

        def walk(lp):
            for b in lp.blocks:
                cur = out.get(b)
                if cur is None or cur.depth < lp.depth:
                    out[b] = lp
            for c in lp.children:
                walk(c)
        for lp in self.loops.get(fn, []):
            walk(lp)
        return out

    def successors(self, fn):
        body = self.body(fn)
        out = {}
        for b, ins in body.blocks.items():
            succ = []
            for s in ins:
                if "label %" in s:
                    for m in re.finditer(r'label (%"[^"]+"|%[\w.$-]+)', s):
                        succ.append(_unq(m.group(1)))
            out[b] = succ
        return out

    def work(self, fn, stack=()):
        """upper bound on loop-body executions of one call of `fn`: the
        heaviest path through the function's CFG, where a loop weighs
        bound x (1 + heaviest path through its body) and a call weighs the
        work of its callee;  -> (bound, [loop reports])"""
        if fn in self._work:
            return self._work[fn]
        if fn in stack:
            nm = llir.demangle_legacy(fn) if fn.startswith("_ZN") else fn
            return (UNBOUNDED, [{"fn": nm, "header": "-", "depth": 0, "rule": "recursion", "bound": "inf",
                                 "scev_max": None, "symbolic": "recursive call", "where": "recursive call of " + nm[-100:],
                                 "src_fn": engine_a.normalise_fn(nm)}])
        f = self.mod.funcs[fn]
        body = self.body(fn)
        succ = self.successors(fn)
        reports = []
        # weight of each block from the calls it contains
        bw = {b: 0 for b in body.blocks}
        for (c, h) in self.an.local(f)[1]:
            text = self.mod.lines[c.line].strip()
            b = body.block_of_line(text)
            wc, rc = self.work(h.name, stack + (fn,))
            for r in rc:
                if r not in reports:
                    reports.append(r)
            if b is None:
                b = body.order[0]
            bw[b] += wc

        def heaviest(blocks, children, start, header):
            """heaviest path from `start` over `blocks` (a set) where each
            child loop is one node; edges to `header` (back edges) and out
            of `blocks` are dropped"""
            node_of = {}
            weight = {}
            for c in children:
                wl = w_loop(c)
                for b in c.blocks:
                    node_of[b] = ("L", id(c))
                weight[("L", id(c))] = wl
            for b in blocks:
                if b not in node_of:
                    node_of[b] = ("B", b)
                    weight[("B", b)] = bw.get(b, 0)
            edges = {}
            for b in blocks:
                n = node_of[b]
                for t in succ.get(b, []):
                    if t not in blocks or t == header:
                        continue
                    m = node_of[t]
                    if m != n:
                        edges.setdefault(n, set()).add(m)
            memo = {}
            state = {}
            cyc = [False]

            def go(n):
                if n in memo:
                    return memo[n]
                if state.get(n) == 1:
                    cyc[0] = True
                    return 0
                state[n] = 1
                best = 0
                for m in edges.get(n, ()):
                    v = go(m)
                    if v > best:
                        best = v
                state[n] = 2
                memo[n] = weight[n] + best
                return memo[n]
            import sys
            sys.setrecursionlimit(max(10000, sys.getrecursionlimit()))
            r = go(node_of[start])
            if cyc[0]:
                r = sum(weight.values())      # irreducible flow: fall back to the sum
            return r

        def w_loop(lp):
            self.decide_loop(fn, lp)
            inner = heaviest(set(lp.blocks), lp.children, lp.header, lp.header)
            # the source function that owns the loop: the deepest inlined frame
            # shared by every instruction of the header and the latches
            chains = []
            for b in [lp.header] + list(lp.latches):
                for ins in body.blocks.get(b, []):
                    m = llir.RE_DBG.search(ins)
                    if m:
                        fr = self.mod.frames(int(m.group(1)))
                        if fr:
                            chains.append(list(reversed(fr)))
            chain = ""
            src_fn = None
            if chains:
                common = []
                for i in range(min(len(c) for c in chains)):
                    sids = {c[i][0] for c in chains}
                    if len(sids) != 1:
                        break
                    common.append(chains[0][i])
                for (sid, line, col) in reversed(common):
                    path, where, _f = self.an.frame_info(sid)
                    if where == "crate":
                        src_fn = engine_a.normalise_fn(path)
                        break
                chain = " <- ".join("%s:%s(%s)" % (self.an.frame_info(sid)[2].rsplit("/", 1)[-1], line,
                                                   self.an.frame_info(sid)[0].rsplit("::", 1)[-1])
                                    for (sid, line, col) in list(reversed(common))[:6])
            rep = {"fn": llir.demangle_legacy(fn) if fn.startswith("_ZN") else fn, "header": lp.header,
                   "depth": lp.depth, "rule": lp.rule,
                   "bound": lp.bound if lp.bound != UNBOUNDED else "inf",
                   "scev_max": lp.scev_max, "symbolic": lp.symbolic, "where": chain,
                   "src_fn": src_fn or "(outside the crate)"}
            if rep not in reports:
                reports.append(rep)
            return lp.bound * (1 + inner)

        total = heaviest(set(body.blocks), self.loops.get(fn, []), body.order[0], None)
        self._work[fn] = (total, reports)
        return self._work[fn]

    def root_work(self, sym):
        name = self.mod.resolve(sym)
        if name not in self.mod.funcs or self.mod.funcs[name].is_decl:
            return None
        total, reports = self.work(name)
        libs = set()
        for fn in self.reach.get(sym, ()):
            libs |= self.an.local(self.mod.funcs[fn])[2]
        return {"total": total if total != UNBOUNDED else "inf", "loops": reports, "libs": sorted(libs),
                "nfuncs": len(self.reach.get(sym, ()))}


def analyse_crate(args):
    ll, syms, hprefix, workdir, tag = args
    la = LoopAnalysis(ll, syms, hprefix)
    la.run_opt(workdir, tag)
    out = {}
    for s in syms:
        out[s] = la.root_work(s)
    return out
