"""Harness generator: turns the API model of the current tree into named
monomorphic roots (`#[no_mangle] #[inline(never)] pub fn e__<layout>__<api>`).

A *root* is one (API item, layout[, type argument]) triple.  Roots are
grouped into *crates* (cdylibs in one cargo workspace) so that cargo builds
them in parallel; every engine that looks at LLVM IR looks at these roots."""
import re

from . import api as A

POLICY_PREFIXES = ("checked_", "saturating_", "wrapping_", "overflowing_")

ARITH_BASES = {"neg", "abs", "add", "sub", "mul", "div", "mul_int", "div_int",
               "shl", "shr", "next_power_of_two", "signum"}
REM_BASES = {"rem", "rem_int", "rem_euclid", "rem_euclid_int", "div_euclid",
             "div_euclid_int"}
ROUND_BASES = {"ceil", "floor", "round", "round_ties_to_even", "round_to_zero",
               "int", "frac"}
BIT_BASES = {"min_value", "max_value", "from_bits", "to_bits", "from_be_bytes",
             "from_le_bytes", "from_ne_bytes", "to_be_bytes", "to_le_bytes",
             "to_ne_bytes", "count_ones", "count_zeros", "leading_zeros",
             "trailing_zeros", "rotate_left", "rotate_right", "is_positive",
             "is_negative", "is_power_of_two", "int_nbits", "frac_nbits"}

OP_TRAITS = {
    # trait: (method, is_assign, is_unary)
    "Neg": ("neg", False, True), "Not": ("not", False, True),
    "Add": ("add", False, False), "Sub": ("sub", False, False),
    "Mul": ("mul", False, False), "Div": ("div", False, False),
    "Rem": ("rem", False, False),
    "BitAnd": ("bitand", False, False), "BitOr": ("bitor", False, False),
    "BitXor": ("bitxor", False, False),
    "Shl": ("shl", False, False), "Shr": ("shr", False, False),
    "AddAssign": ("add_assign", True, False), "SubAssign": ("sub_assign", True, False),
    "MulAssign": ("mul_assign", True, False), "DivAssign": ("div_assign", True, False),
    "RemAssign": ("rem_assign", True, False),
    "BitAndAssign": ("bitand_assign", True, False), "BitOrAssign": ("bitor_assign", True, False),
    "BitXorAssign": ("bitxor_assign", True, False),
    "ShlAssign": ("shl_assign", True, False), "ShrAssign": ("shr_assign", True, False),
}
FMT_TRAITS = ["Display", "Debug", "Binary", "Octal", "LowerHex", "UpperHex"]

NUM_TYPES = A.INT_TYPES + ["bool", "f32", "f64"]


class Mismatch(Exception):
    pass


def render(t, subst):
    """rustdoc type -> Rust text; `subst` maps generic names to text or Layout.
    Raises Mismatch when a `FixedX<G>` pattern meets a layout of another
    struct."""
    if t is None:
        return "()"
    (k, v), = t.items()
    if k == "primitive":
        return v
    if k == "generic":
        s = subst.get(v)
        if s is None:
            raise Mismatch("unbound generic " + v)
        return s.name if isinstance(s, A.Layout) else s
    if k == "resolved_path":
        base = v["path"].split("::")[-1]
        a = v.get("args")
        args = []
        if a and "angle_bracketed" in a:
            args = [x for x in a["angle_bracketed"]["args"]]
        if A.FIXED_RE.match(base) and len(args) == 1 and "type" in args[0] \
                and "generic" in args[0]["type"]:
            lay = subst.get(args[0]["type"]["generic"])
            if isinstance(lay, A.Layout):
                if lay.struct != base:
                    raise Mismatch(base)
                return lay.name
            raise Mismatch("frac generic not a layout")
        rargs = []
        for x in args:
            if "type" in x:
                rargs.append(render(x["type"], subst))
            elif "lifetime" in x:
                rargs.append("'_")
        p = A.PATHS.get(base)
        if p is None:
            p = v["path"].replace("crate::", "substrate_fixed::")
            if "::" not in p:
                raise Mismatch("unknown path " + p)
        if base == "Formatter":
            return p
        return p + ("<" + ", ".join(rargs) + ">" if rargs else "")
    if k == "borrowed_ref":
        return "&" + ("mut " if v["is_mutable"] else "") + render(v["type"], subst)
    if k == "tuple":
        if len(v) == 1:
            return "(" + render(v[0], subst) + ",)"
        return "(" + ", ".join(render(x, subst) for x in v) + ")"
    if k == "slice":
        return "[" + render(v, subst) + "]"
    if k == "array":
        return "[" + render(v["type"], subst) + "; " + v["len"] + "]"
    if k == "qualified_path":
        st = render(v["self_type"], subst)
        tr = v["trait"]["path"].split("::")[-1] if v.get("trait") and v["trait"].get("path") else None
        if not tr and v["name"] in ("Bits", "Bytes", "Frac"):
            tr = "Fixed"
        if tr:
            return "<" + st + " as " + A.PATHS.get(tr, tr) + ">::" + v["name"]
        return st + "::" + v["name"]
    raise Mismatch("unsupported type kind " + k)


def split_policy(name):
    for p in POLICY_PREFIXES:
        if name.startswith(p):
            return p[:-1], name[len(p):]
    return None, name


def group_of(base):
    if base in ARITH_BASES:
        return "arith"
    if base in REM_BASES:
        return "rem"
    if base in ROUND_BASES:
        return "round"
    if base in BIT_BASES:
        return "bits"
    if base in ("from_num", "to_num"):
        return "conv"
    if base.startswith("from_str"):
        return "parse"
    return "misc"


def doc_facts(docs):
    """Documented panic situations, read from the item's documentation."""
    d = re.sub(r"\s+", " ", docs or "")
    return {
        "zero": bool(re.search(r"[Pp]anics if the divisor is zero", d)),
        "nonfinite": bool(re.search(r"panics if the value is not \[?finite", d)),
        "nan": bool(re.search(r"panics if the value is a floating-point \[?NaN", d)),
        "overflow": bool(re.search(r"When debug assertions are enabled,? (this method )?(also )?panics", d)),
        "any": bool(re.search(r"[Pp]anic", d)),
    }


class Root:
    __slots__ = ("sym", "layout", "group", "api", "policy", "base", "cls", "code",
                 "targ", "guard", "kind", "float_msgs", "extra")

    def __init__(self, **kw):
        self.targ = None
        self.guard = None
        self.float_msgs = ()
        self.extra = {}
        self.policy = None
        self.base = None
        for k, v in kw.items():
            setattr(self, k, v)

    def meta(self):
        return {"sym": self.sym, "layout": self.layout, "group": self.group,
                "api": self.api, "policy": self.policy, "base": self.base,
                "cls": self.cls, "targ": self.targ, "guard": self.guard,
                "kind": self.kind, "float_msgs": list(self.float_msgs),
                "extra": self.extra}


def sanitize(s):
    return re.sub(r"[^A-Za-z0-9]+", "_", s).strip("_")


def classify(name, out_txt, facts, targ=None):
    """-> (cls, guard, float_msgs).  cls: 'T' total, 'P' documented panicker.
    guard: 'div' when the property's `divisor != 0` precondition applies."""
    policy, base = split_policy(name)
    is_float = targ in ("f32", "f64")
    float_msgs = ()
    if is_float and base == "from_num":
        if facts.get("nonfinite"):
            float_msgs = ("NaN", "infinite")
        elif facts.get("nan"):
            float_msgs = ("NaN",)
    returns_opt = out_txt.startswith("core::option::Option") or out_txt.startswith("core::result::Result")
    if policy is not None or returns_opt:
        guard = "div" if (facts.get("zero") and policy != "checked") else None
        return "T", guard, float_msgs
    # no overflow handling in the name and a plain return type
    if facts.get("any") or group_of(base) in ("arith", "rem", "conv") or base in ("ceil", "floor", "round", "round_ties_to_even"):
        return "P", None, float_msgs
    return "T", None, float_msgs


HEADER = """#![allow(unused_imports, non_snake_case, clippy::all, unused_variables, dead_code, unused_mut)]
use substrate_fixed::types::*;
use substrate_fixed::traits::{Fixed, FixedSigned, FixedUnsigned, FromFixed, ToFixed, LossyFrom, LossyInto};
use substrate_fixed::Wrapping;

pub struct H(pub u64);
impl core::hash::Hasher for H {
    #[inline(never)]
    fn write(&mut self, bytes: &[u8]) { for b in bytes { self.0 = self.0.rotate_left(5) ^ (*b as u64); } }
    fn finish(&self) -> u64 { self.0 }
}
"""


def fn_text(sym, params, ret, body, guard_stmt=None):
    ps = ", ".join("%s: %s" % p for p in params)
    if guard_stmt:
        return ("#[no_mangle] #[inline(never)]\npub fn %s(%s) -> Option<%s> { %s Some(%s) }\n"
                % (sym, ps, ret, guard_stmt, body))
    return "#[no_mangle] #[inline(never)]\npub fn %s(%s) -> %s { %s }\n" % (sym, ps, ret, body)


class Generator:
    def __init__(self, api):
        self.api = api

    # -- inherent methods of the ten Fixed structs ---------------------------
    def inherent_roots(self, lay, num_types=None, want=None, prefix="e"):
        """Roots for every public inherent method of `lay`'s struct.  Generic
        from_num/to_num forms are instantiated for `num_types`."""
        out = []
        idx = self.api.idx
        for im in self.api.impls[lay.struct]:
            if im.trait is not None:
                continue
            for it in im.raw["items"]:
                f = idx.get(str(it))
                if f is None or "function" not in f["inner"] or f["visibility"] != "public":
                    continue
                m = A.Method(f)
                facts = doc_facts(f.get("docs"))
                out.extend(self._method_roots(lay, lay.name, m, facts, num_types, prefix, want))
        return out

    def _method_roots(self, lay, self_txt, m, facts, num_types, prefix, want, wrapping=False):
        policy, base = split_policy(m.name)
        group = "wrap" if wrapping else group_of(base)
        if want is not None and not want(group, m.name):
            return []
        subst0 = {"Self": self_txt, "Frac": lay, "F": lay}
        targs = [None]
        if m.generics:
            if len(m.generics) != 1 or num_types is None:
                return []
            targs = list(num_types)
            # only types that implement the bound (ToFixed / FromFixed)
            for b in m.generic_bounds().get(m.generics[0], []):
                impls = self._implementors(b)
                if impls:
                    targs = [t for t in targs if self._type_head(t) in impls]
        roots = []
        for targ in targs:
            subst = dict(subst0)
            if targ is not None:
                subst[m.generics[0]] = targ
            try:
                params = []
                for n, (pn, pt) in enumerate(m.inputs):
                    if pn == "self":
                        if m.self_kind == "val":
                            params.append(("a0", self_txt))
                        elif m.self_kind == "&":
                            params.append(("a0", "&" + self_txt))
                        else:
                            params.append(("a0", "&mut " + self_txt))
                    else:
                        params.append(("a%d" % n, render(pt, subst)))
                ret = render(m.output, subst)
            except Mismatch:
                continue
            cls, guard, fmsgs = classify(m.name, ret, facts, targ)
            if wrapping:
                cls = "T"
                if facts.get("zero") or base in ("div_euclid", "rem_euclid", "div_euclid_int", "rem_euclid_int"):
                    guard = "div"
            turbofish = ("::<%s>" % targ) if targ is not None else ""
            call = "<%s>::%s%s(%s)" % (self_txt, m.name, turbofish, ", ".join(p[0] for p in params))
            gstmt = None
            if guard == "div" and len(params) >= 2:
                dty = params[1][1]
                if dty in A.INT_TYPES:
                    gstmt = "if a1 == 0 { return None; }"
                elif dty.startswith("substrate_fixed::Wrapping") or dty.startswith("Wrapping"):
                    gstmt = "if a1.0.to_bits() == 0 { return None; }"
                elif "Bits" in dty:
                    gstmt = "if a1 == 0 { return None; }"
                else:
                    gstmt = "if a1.to_bits() == 0 { return None; }"
            sym = "%s__%s__%s" % (prefix, lay.name, m.name)
            if targ is not None:
                sym += "__" + sanitize(targ)
            roots.append(Root(sym=sym, layout=lay.name, group=group, api=m.name,
                              policy=policy, base=base, cls=cls, targ=targ,
                              guard=guard if gstmt else None, kind="inherent",
                              float_msgs=fmsgs,
                              code=fn_text(sym, params, ret, call, gstmt)))
        return roots

    # -- Wrapping<F> -----------------------------------------------------------
    def wrapping_inherent_roots(self, lay, num_types=None, want=None):
        out = []
        idx = self.api.idx
        self_txt = "Wrapping<%s>" % lay.name
        for im in self.api.impls["Wrapping"]:
            if im.trait is not None:
                continue
            # impl<F: FixedSigned> / <F: FixedUnsigned> blocks
            bounds = self._impl_bounds(im)
            if "FixedSigned" in bounds.get("F", ()) and not lay.signed:
                continue
            if "FixedUnsigned" in bounds.get("F", ()) and lay.signed:
                continue
            for it in im.raw["items"]:
                f = idx.get(str(it))
                if f is None or "function" not in f["inner"] or f["visibility"] != "public":
                    continue
                m = A.Method(f)
                facts = doc_facts(f.get("docs"))
                out.extend(self._method_roots(lay, self_txt, m, facts, num_types, "w", want, wrapping=True))
        return out

    def _implementors(self, trait):
        c = getattr(self, "_impl_cache", None)
        if c is None:
            c = self._impl_cache = {}
        if trait not in c:
            c[trait] = self.api.implementors(trait)
        return c[trait]

    @staticmethod
    def _type_head(t):
        m = re.match(r"^([IU])(\d+)F(\d+)$", t)
        if m:
            return "Fixed%s%d" % (m.group(1), int(m.group(2)) + int(m.group(3)))
        return t

    @staticmethod
    def _impl_bounds(im):
        out = {}
        for g in im.raw["generics"]["params"]:
            if "type" in g["kind"]:
                out[g["name"]] = [b["trait_bound"]["trait"]["path"].split("::")[-1]
                                  for b in g["kind"]["type"]["bounds"] if "trait_bound" in b]
        for p in im.raw["generics"]["where_predicates"]:
            bp = p.get("bound_predicate")
            if bp and "generic" in bp["type"]:
                out.setdefault(bp["type"]["generic"], []).extend(
                    b["trait_bound"]["trait"]["path"].split("::")[-1]
                    for b in bp["bounds"] if "trait_bound" in b)
        return out

    # -- operator impls (Fixed and Wrapping) ---------------------------------
    def op_roots(self, lay, struct=None, forms="all", shift_types=None):
        """Roots for every core::ops impl whose Self type is `lay` (or
        Wrapping<lay> when struct == 'Wrapping').  `forms`: 'all' or 'value'
        (skip the by-reference forwarding impls)."""
        wrapping = struct == "Wrapping"
        sname = "Wrapping" if wrapping else lay.struct
        prefix = "w" if wrapping else "e"
        out = []
        seen = set()
        for im in self.api.impls[sname]:
            if im.trait not in OP_TRAITS:
                continue
            method, is_assign, unary = OP_TRAITS[im.trait]
            subst = {g: lay for g in im.generics}
            try:
                self_ty = render(im.for_ty, subst)
                rhs_ty = None
                if not unary:
                    rhs_ty = render(im.trait_args[0], subst) if im.trait_args else self_ty
            except Mismatch:
                continue
            core_self = self_ty.lstrip("&")
            if wrapping:
                if not core_self.startswith("substrate_fixed::Wrapping<%s>" % lay.name):
                    continue
                self_ty = self_ty.replace("substrate_fixed::Wrapping", "Wrapping")
                rhs_ty = rhs_ty.replace("substrate_fixed::Wrapping", "Wrapping") if rhs_ty else None
            elif core_self != lay.name:
                continue
            if forms == "value" and (self_ty.startswith("&") or (rhs_ty or "").startswith("&")):
                continue
            if im.trait in ("Shl", "Shr", "ShlAssign", "ShrAssign") and shift_types is not None \
                    and rhs_ty.lstrip("&") not in shift_types:
                continue
            tag = ("r" if self_ty.startswith("&") else "v")
            if rhs_ty is not None:
                tag += "_" + sanitize(("r" if rhs_ty.startswith("&") else "v") + "_" + self._short(rhs_ty, lay))
            api_name = "%s::%s[%s]" % (im.trait, method, tag)
            sym = "%s__%s__op_%s_%s" % (prefix, lay.name, im.trait, tag)
            if sym in seen:
                continue
            seen.add(sym)
            tr = "core::ops::" + im.trait
            out_ty = self_ty.lstrip("&")
            if im.assoc_types.get("Output") is not None:
                try:
                    out_ty = render(im.assoc_types["Output"], subst).replace("substrate_fixed::Wrapping", "Wrapping")
                except Mismatch:
                    pass
            base = method.replace("_assign", "")
            div_like = base in ("div", "rem")
            guard = None
            gstmt = None
            if wrapping and div_like:
                guard = "div"
                r = "a1" if not rhs_ty.startswith("&") else "(*a1)"
                if rhs_ty.lstrip("&") in A.INT_TYPES:
                    gstmt = "if %s == 0 { return None; }" % r
                else:
                    gstmt = "if %s.0.to_bits() == 0 { return None; }" % r
            if is_assign:
                params = [("a0", "&mut " + self_ty), ("a1", rhs_ty)]
                body = "%s::%s(a0, a1)" % ((tr + "<%s>" % rhs_ty), method)
                body = "<%s as %s<%s>>::%s(a0, a1)" % (self_ty, tr, rhs_ty, method)
                ret = "()"
            elif unary:
                params = [("a0", self_ty)]
                body = "<%s as %s>::%s(a0)" % (self_ty, tr, method)
                ret = out_ty
            else:
                params = [("a0", self_ty), ("a1", rhs_ty)]
                body = "<%s as %s<%s>>::%s(a0, a1)" % (self_ty, tr, rhs_ty, method)
                ret = out_ty
            cls = "T" if (wrapping or base in ("not", "bitand", "bitor", "bitxor")) else "P"
            out.append(Root(sym=sym, layout=lay.name, group="wrap" if wrapping else "ops",
                            api=api_name, base=base, cls=cls, kind="op",
                            guard=guard, code=fn_text(sym, params, ret, body, gstmt),
                            extra={"trait": im.trait, "self": self_ty, "rhs": rhs_ty}))
        # Sum / Product
        for im in self.api.impls[sname]:
            if im.trait not in ("Sum", "Product"):
                continue
            subst = {g: lay for g in im.generics}
            try:
                arg = render(im.trait_args[0], subst) if im.trait_args else None
            except Mismatch:
                continue
            by_ref = bool(arg) and arg.startswith("&")
            self_ty = ("Wrapping<%s>" % lay.name) if wrapping else lay.name
            method = "sum" if im.trait == "Sum" else "product"
            sym = "%s__%s__iter_%s_%s" % (prefix, lay.name, im.trait, "r" if by_ref else "v")
            if sym in seen:
                continue
            seen.add(sym)
            it = "a0.iter()" if by_ref else "a0.iter().copied()"
            body = "%s.%s::<%s>()" % (it, method, self_ty)
            out.append(Root(sym=sym, layout=lay.name, group="wrap" if wrapping else "ops",
                            api="%s::%s[%s]" % (im.trait, method, "r" if by_ref else "v"),
                            base=method, cls="T" if wrapping else "P", kind="iter",
                            code=fn_text(sym, [("a0", "&[%s]" % self_ty)], self_ty, body)))
        return out

    @staticmethod
    def _short(ty, lay):
        t = ty.lstrip("&")
        if t == lay.name or t == "Wrapping<%s>" % lay.name:
            return "self"
        return t

    # -- fmt / FromStr / Hash / Ord ------------------------------------------
    def fmt_roots(self, lay, wrapping=False):
        out = []
        sname = "Wrapping" if wrapping else lay.struct
        self_ty = ("Wrapping<%s>" % lay.name) if wrapping else lay.name
        prefix = "w" if wrapping else "e"
        have = {im.trait for im in self.api.impls[sname]}
        for tr in FMT_TRAITS:
            if tr not in have:
                continue
            sym = "%s__%s__fmt_%s" % (prefix, lay.name, tr)
            body = "<%s as core::fmt::%s>::fmt(a0, a1)" % (self_ty, tr)
            out.append(Root(sym=sym, layout=lay.name, group="wrap" if wrapping else "fmt",
                            api=tr + "::fmt", base="fmt", cls="T", kind="fmt",
                            code=fn_text(sym, [("a0", "&" + self_ty), ("a1", "&mut core::fmt::Formatter<'_>")],
                                         "core::fmt::Result", body)))
        return out

    def misc_trait_roots(self, lay, wrapping=False):
        out = []
        sname = "Wrapping" if wrapping else lay.struct
        self_ty = ("Wrapping<%s>" % lay.name) if wrapping else lay.name
        prefix = "w" if wrapping else "e"
        have = {im.trait for im in self.api.impls[sname]}
        g = "wrap" if wrapping else None
        if "FromStr" in have:
            sym = "%s__%s__FromStr_from_str" % (prefix, lay.name)
            out.append(Root(sym=sym, layout=lay.name, group=g or "parse", api="FromStr::from_str",
                            base="from_str", cls="T", kind="trait",
                            code=fn_text(sym, [("a0", "&str")],
                                         "Result<%s, <%s as core::str::FromStr>::Err>" % (self_ty, self_ty),
                                         "<%s as core::str::FromStr>::from_str(a0)" % self_ty)))
        if "Hash" in have:
            sym = "%s__%s__Hash_hash" % (prefix, lay.name)
            out.append(Root(sym=sym, layout=lay.name, group=g or "cmp", api="Hash::hash",
                            base="hash", cls="T", kind="trait",
                            code=fn_text(sym, [("a0", "&" + self_ty), ("a1", "&mut H")], "()",
                                         "<%s as core::hash::Hash>::hash(a0, a1)" % self_ty)))
        if "Ord" in have:
            sym = "%s__%s__Ord_cmp" % (prefix, lay.name)
            out.append(Root(sym=sym, layout=lay.name, group=g or "cmp", api="Ord::cmp",
                            base="cmp", cls="T", kind="trait",
                            code=fn_text(sym, [("a0", "&" + self_ty), ("a1", "&" + self_ty)],
                                         "core::cmp::Ordering",
                                         "<%s as core::cmp::Ord>::cmp(a0, a1)" % self_ty)))
        if wrapping and "From" in have:
            sym = "w__%s__From_from" % lay.name
            out.append(Root(sym=sym, layout=lay.name, group="wrap", api="From::from",
                            base="from", cls="T", kind="trait",
                            code=fn_text(sym, [("a0", lay.name)], self_ty,
                                         "<%s as core::convert::From<%s>>::from(a0)" % (self_ty, lay.name))))
        return out

    # -- comparisons -----------------------------------------------------------
    def cmp_roots(self, lay, rhs_layouts=(), prims=(), methods=None):
        """PartialEq / PartialOrd between `lay` and other layouts / primitive
        numbers, in both operand orders, for the methods the impls define."""
        out = []
        seen = set()
        by_struct = {}
        for r in rhs_layouts:
            by_struct.setdefault(r.struct, []).append(r)
        for im in self.api.impls[lay.struct]:
            if im.trait not in ("PartialEq", "PartialOrd") or not im.trait_args:
                continue
            f, a = im.for_ty, im.trait_args[0]
            cands = []
            # Fixed (lhs = lay) vs Fixed
            fb = self._fixed_base(f)
            ab = self._fixed_base(a)
            if fb and ab:
                if fb[0] == lay.struct:
                    for r in by_struct.get(ab[0], []):
                        cands.append((lay.name, r.name, {fb[1]: lay, ab[1]: r} if fb[1] != ab[1] else None))
                # rhs = lay handled when iterating the other struct's impls by
                # symmetry of the layout sets; nothing to do here
            elif fb and "primitive" in a:
                if fb[0] == lay.struct and a["primitive"] in prims:
                    cands.append((lay.name, a["primitive"], None))
            elif "primitive" in f and ab:
                if ab[0] == lay.struct and f["primitive"] in prims:
                    cands.append((f["primitive"], lay.name, None))
            for (lt, rt, _s) in cands:
                for m in im.methods:
                    if methods is not None and m.name not in methods:
                        continue
                    sym = "e__%s__cmp_%s__%s__%s" % (lay.name, m.name, sanitize(lt), sanitize(rt))
                    if sym in seen:
                        continue
                    seen.add(sym)
                    ret = "bool" if m.name != "partial_cmp" else "Option<core::cmp::Ordering>"
                    body = "<%s as core::cmp::%s<%s>>::%s(a0, a1)" % (lt, im.trait, rt, m.name)
                    out.append(Root(sym=sym, layout=lay.name, group="cmp",
                                    api="%s::%s<%s,%s>" % (im.trait, m.name, lt, rt),
                                    base=m.name, cls="T", kind="cmp",
                                    extra={"lhs": lt, "rhs": rt},
                                    code=fn_text(sym, [("a0", "&" + lt), ("a1", "&" + rt)], ret, body)))
        return out

    @staticmethod
    def _fixed_base(t):
        if "resolved_path" in t:
            base = t["resolved_path"]["path"].split("::")[-1]
            if A.FIXED_RE.match(base):
                a = t["resolved_path"].get("args")
                try:
                    g = a["angle_bracketed"]["args"][0]["type"]["generic"]
                except (KeyError, IndexError, TypeError):
                    return None
                return (base, g)
        return None

    # -- trait-level API (Fixed / FixedSigned / FixedUnsigned) ------------------
    def trait_method_roots(self, lay, num_types=("i32", "f32")):
        out = []
        idx = self.api.idx
        for tn in ("Fixed", "FixedSigned", "FixedUnsigned"):
            if tn == "FixedSigned" and not lay.signed:
                continue
            if tn == "FixedUnsigned" and lay.signed:
                continue
            t = self.api.traits.get(tn)
            if t is None:
                continue
            for it in t["inner"]["trait"]["items"]:
                f = idx.get(str(it))
                if f is None or "function" not in f["inner"]:
                    continue
                m = A.Method(f)
                # the traits mirror the inherent methods; the documented panic
                # situations are written on the inherent ones
                facts = self._inherent_doc_facts(lay.struct).get(m.name) or doc_facts(f.get("docs"))
                policy, base = split_policy(m.name)
                subst = {"Self": lay.name}
                targs = [None]
                if m.generics:
                    if len(m.generics) != 1:
                        continue
                    targs = list(num_types)
                for targ in targs:
                    s2 = dict(subst)
                    if targ:
                        s2[m.generics[0]] = targ
                    try:
                        params = []
                        for n, (pn, pt) in enumerate(m.inputs):
                            if pn == "self":
                                params.append(("a0", lay.name))
                            else:
                                params.append(("a%d" % n, self._render_trait_ty(pt, s2, lay)))
                        ret = self._render_trait_ty(m.output, s2, lay)
                    except Mismatch:
                        continue
                    cls, guard, fmsgs = classify(m.name, ret, facts, targ)
                    gstmt = None
                    if guard == "div" and len(params) >= 2:
                        gstmt = "if a1 == 0 { return None; }" if "Bits" in params[1][1] or params[1][1] in A.INT_TYPES \
                            else "if a1.to_bits() == 0 { return None; }"
                    turbofish = ("::<%s>" % targ) if targ else ""
                    sym = "t__%s__%s_%s" % (lay.name, tn, m.name) + (("__" + sanitize(targ)) if targ else "")
                    call = "<%s as substrate_fixed::traits::%s>::%s%s(%s)" % (
                        lay.name, tn, m.name, turbofish, ", ".join(p[0] for p in params))
                    out.append(Root(sym=sym, layout=lay.name, group="trait", api=tn + "::" + m.name,
                                    policy=policy, base=base, cls=cls, targ=targ,
                                    guard=guard if gstmt else None, kind="trait", float_msgs=fmsgs,
                                    code=fn_text(sym, params, ret, call, gstmt)))
        return out

    def _inherent_doc_facts(self, struct):
        c = getattr(self, "_idf", None)
        if c is None:
            c = self._idf = {}
        if struct not in c:
            d = {}
            for im in self.api.impls[struct]:
                if im.trait is not None:
                    continue
                for it in im.raw["items"]:
                    f = self.api.idx.get(str(it))
                    if f is not None and "function" in f["inner"]:
                        d[f["name"]] = doc_facts(f.get("docs"))
            c[struct] = d
        return c[struct]

    def _render_trait_ty(self, t, subst, lay):
        if t is None:
            return "()"
        (k, v), = t.items()
        if k == "generic" and v == "Self":
            return lay.name
        if k == "qualified_path" and "generic" in v["self_type"] and v["self_type"]["generic"] == "Self":
            return "<%s as substrate_fixed::traits::Fixed>::%s" % (lay.name, v["name"])
        if k == "resolved_path":
            base = v["path"].split("::")[-1]
            a = v.get("args")
            args = [x["type"] for x in a["angle_bracketed"]["args"] if "type" in x] if a and "angle_bracketed" in a else []
            p = A.PATHS.get(base)
            if p is None:
                raise Mismatch(base)
            return p + ("<" + ", ".join(self._render_trait_ty(x, subst, lay) for x in args) + ">" if args else "")
        if k == "tuple":
            return "(" + ", ".join(self._render_trait_ty(x, subst, lay) for x in v) + ")"
        if k == "borrowed_ref":
            return "&" + ("mut " if v["is_mutable"] else "") + self._render_trait_ty(v["type"], subst, lay)
        return render(t, subst)

    # -- transcendental --------------------------------------------------------
    def transc_roots(self, pairs_sd, singles, guard_trig=True, fns=None):
        """pairs_sd: [(S layout, D layout)] for the two-type functions;
        singles: [layout] for sin/cos/tan."""
        out = []
        fm = self.api.functions.get("substrate_fixed::transcendental", {})
        for name, m in sorted(fm.items()):
            if not m.public or (fns is not None and name not in fns):
                continue
            if name == "asin":
                continue
            gens = m.generics
            if gens == ["S", "D"]:
                for (s, d) in pairs_sd:
                    subst = {"S": s.name, "D": d.name}
                    try:
                        params = [("a%d" % n, render(pt, subst)) for n, (pn, pt) in enumerate(m.inputs)]
                        ret = render(m.output, subst)
                    except Mismatch:
                        continue
                    ret = ret.replace("&str", "&'static str")
                    sym = "x__%s__%s__%s" % (name, s.name, d.name)
                    call = "substrate_fixed::transcendental::%s::<%s, %s>(%s)" % (
                        name, s.name, d.name, ", ".join(p[0] for p in params))
                    out.append(Root(sym=sym, layout=d.name, group="transc", api=name, base=name,
                                    cls="T", kind="transc", extra={"S": s.name, "D": d.name},
                                    code=fn_text(sym, params, ret, call)))
            elif gens == ["T"]:
                for t in singles:
                    subst = {"T": t.name}
                    try:
                        params = [("a%d" % n, render(pt, subst)) for n, (pn, pt) in enumerate(m.inputs)]
                        ret = render(m.output, subst)
                    except Mismatch:
                        continue
                    gstmt = None
                    guard = None
                    if guard_trig:
                        lim = 100 if name == "tan" else 200
                        if t.int_bits - 1 >= 8:     # 200 must be representable
                            one = "((1 as %s) << %d)" % (t.inner, t.frac)
                            gstmt = ("{ let b = a0.to_bits(); let lim = (%d as %s) * %s; "
                                     "if b > lim || b < -lim { return None; } }" % (lim, t.inner, one))
                            guard = "mag%d" % lim
                    sym = "x__%s__%s%s" % (name, t.name, "" if guard_trig else "__ng")
                    call = "substrate_fixed::transcendental::%s::<%s>(%s)" % (
                        name, t.name, ", ".join(p[0] for p in params))
                    out.append(Root(sym=sym, layout=t.name, group="transc", api=name, base=name,
                                    cls="T", kind="transc", guard=guard, extra={"T": t.name},
                                    code=fn_text(sym, params, ret, call, gstmt)))
        return out

    # -- From / LossyFrom roots for given (src, dst) type texts ------------------
    def conv_trait_roots(self, pairs, trait="From"):
        out = []
        tr = "core::convert::From" if trait == "From" else "substrate_fixed::traits::LossyFrom"
        meth = "from" if trait == "From" else "lossy_from"
        for (src, dst) in pairs:
            sym = "f__%s__%s__%s" % (trait, sanitize(src), sanitize(dst))
            body = "<%s as %s<%s>>::%s(a0)" % (dst, tr, src, meth)
            lay = dst if re.match(r"^[IU]\d+F\d+$", dst) else src
            out.append(Root(sym=sym, layout=lay, group="from", api="%s<%s> for %s" % (trait, src, dst),
                            base=meth, cls="T", kind="from", extra={"src": src, "dst": dst},
                            code=fn_text(sym, [("a0", src)], dst, body)))
        return out


def controls():
    """Positive / negative controls compiled into every Engine-A crate."""
    code = """
#[no_mangle] #[inline(never)]
pub fn ctl__pos_add(a: i32, b: i32) -> i32 { a + b }
#[no_mangle] #[inline(never)]
pub fn ctl__neg_shift(a: u32) -> u32 { (a & 0xff) << 3 }
#[no_mangle] #[inline(never)]
pub fn ctl__pos_index(a: &[u8], i: usize) -> u8 { a[i] }
#[no_mangle] #[inline(never)]
pub fn ctl__pos_unwrap(a: Option<u8>) -> u8 { a.unwrap() }
#[no_mangle] #[inline(never)]
pub fn ctl__pos_div(a: i32, b: i32) -> i32 { a / b }
"""
    return code
