"""Property-level driver for Engine E."""
import collections
import json
import os
from concurrent.futures import ProcessPoolExecutor

from . import api as A
from . import build as B
from . import common as C
from . import engine_e
from . import engine_e3
from . import eq_specs
from . import gen as G
from . import llir
from . import plan
from . import run_a

HERE = os.path.dirname(os.path.abspath(__file__))
REGISTRY = os.path.join(C.TABLES, "eq_obligations.json")
CHUNK = 1200

CONV_INTS = ["i8", "u8", "i32", "u64", "i128", "u128"]


def conv_pairs(tier):
    """boundary (src, dst) layout pairs: equal / one fewer / one more integer
    and fraction bits around each destination, across families"""
    out = []
    fams = A.FAMILIES
    seen = set()
    for (ds, dw) in fams:
        dfr = sorted({0, dw // 2, dw}) if tier == "quick" else sorted({0, 1, dw // 2, dw - 1, dw})
        for df in dfr:
            d = A.Layout(A.layout_name(ds, dw, df))
            for (ss, sw) in fams:
                cands = set()
                for sf in (df - 1, df, df + 1, 0, sw):
                    if 0 <= sf <= sw:
                        cands.add(sf)
                # source with the same number of integer bits +-1
                for di in (-1, 0, 1):
                    sf = sw - (d.int_bits + di)
                    if 0 <= sf <= sw:
                        cands.add(sf)
                if tier == "quick":
                    cands = {c for c in cands if c in (df, 0, sw, sw - d.int_bits)}
                for sf in sorted(cands):
                    s = A.Layout(A.layout_name(ss, sw, sf))
                    if s.name != d.name and (s.name, d.name) not in seen:
                        seen.add((s.name, d.name))
                        out.append((s, d))
    return out


def families_for(tier):
    return {
        "wrap": plan.layouts_for(tier),
        "pol": plan.layouts_for(tier),
        "mask": A.all_layouts(),
        "rem": A.all_layouts(),
        "div": [l for l in plan.layouts_for(tier) if l.width < 128],
        "codec": plan.layouts_for(tier),
        "cmp": plan.layouts_for(tier),
        "del": [A.Layout(A.layout_name(s, w, w // 2)) for (s, w) in A.FAMILIES] if tier == "quick"
        else plan.layouts_for("quick"),
        "alg": [l for l in plan.layouts_for(tier) if l.width == 128],
        "serde": plan.layouts_for("quick"),
    }


def gen_pairs(api, tier, fams):
    sp = eq_specs.Specs(api)
    lay = families_for(tier)
    pairs = collections.OrderedDict()
    quick_full = {A.layout_name(s, w, w // 2) for (s, w) in A.FAMILIES}
    quick_names = {l.name for l in A.quick_layouts()}
    for fam in fams:
        out = []
        if fam == "wrap":
            for l in lay["wrap"]:
                full = l.name in (quick_names if tier == "thorough" else quick_full)
                out += sp.wrap(l, full=full)
        elif fam == "pol":
            for l in lay["pol"]:
                out += sp.policy(l)
        elif fam == "mask":
            for l in lay["mask"]:
                out += sp.mask(l)
        elif fam == "rem":
            for l in lay["rem"]:
                out += sp.rem(l)
        elif fam == "div":
            for l in lay["div"]:
                out += sp.div(l)
        elif fam == "codec":
            ls = lay["codec"]
            for l in ls:
                others = [o for o in ls if o.struct == l.struct and o.frac in (0, o.width)]
                out += sp.codec(l, others=others)
        elif fam == "cmp":
            for l in lay["cmp"]:
                out += sp.cmp_same(l)
        elif fam == "del":
            for l in lay["del"]:
                out += sp.delegates(l)
        elif fam == "alg":
            for l in lay["alg"]:
                out += sp.alg(l)
        elif fam == "serde":
            for l in lay["serde"]:
                out += sp.serde(l)
        elif fam == "cmpx":
            names = ["I8F0", "I4F4", "U8F8", "I16F16", "U0F32", "I32F32", "U64F0", "I64F64", "I0F128", "U64F64"]
            if tier == "thorough":
                names += ["U8F0", "I0F8", "I1F15", "U16F16", "I32F0", "U32F32", "I0F64", "U0F128", "I128F0", "I1F127"]
            prims = ["i8", "u16", "i32", "u64", "i128", "u128", "f32", "f64"]
            for a in names:
                for b in names:
                    if a != b:
                        out += sp.cmp_cross(a, b)
                for pr in prims:
                    out += sp.cmp_cross(a, pr)
                    out += sp.cmp_cross(pr, a)
        elif fam == "conv":
            for (s, d) in conv_pairs(tier):
                out += sp.conv(s, d)
            for l in plan.layouts_for("quick"):
                for ity in CONV_INTS:
                    out += sp.conv_int(l, ity)
        if out:
            out = out + sp.controls2(out[0].family)
        pairs[fam] = out
    return pairs


def crates_for(fam, pairs):
    crates = []
    n = max(1, (len(pairs) + CHUNK - 1) // CHUNK)
    per = (len(pairs) + n - 1) // n if pairs else 0
    for i in range(n):
        chunk = pairs[i * per:(i + 1) * per]
        roots = []
        for k, p in enumerate(chunk):
            a, b = eq_specs.pair_code(k, p)
            roots.append(G.Root(sym="a__%d" % k, layout=p.layout, group="eq", api=p.oid, cls="E", kind="eq", code=a))
            roots.append(G.Root(sym="b__%d" % k, layout=p.layout, group="eq", api=p.oid, cls="E", kind="eq", code=b))
        cr = B.Crate("h_eq_%s_%d" % (fam, i), roots,
                     extra_code=eq_specs.HEADER_EXTRA + (eq_specs.SERDE_EXTRA if fam == "serde" else ""))
        cr.pairs = chunk
        cr.deps = 'codec = { package = "parity-scale-codec", version = "3", default-features = false }\n'
        if fam == "serde":
            cr.deps += 'serde = { version = "1", default-features = false }\n'
            cr.features = ["serde"]
        crates.append(cr)
    return crates


def _compare_crate(args):
    ll, n, algs = args
    mod = llir.Module(ll, want_calls=False)
    out = []
    memo = {}
    for k in range(n):
        spec = algs[k]
        if spec is None:
            out.append(engine_e.compare(mod, "a__%d" % k, "b__%d" % k))
            continue
        # in-tool specification (engine_e3): the body of a__k against the limb algebra's term
        _kind, signed, width, frac, part = spec
        fn = mod.resolve("a__%d" % k)
        key = (fn, signed, width, frac)
        if key not in memo:
            try:
                want_flag = mod.body(mod.funcs[fn])[0].count("sret(") > 0 or "{" in mod.body(mod.funcs[fn])[0].split("@")[0]
                memo[key] = engine_e3.check_mul(mod, fn, signed, width, frac, want_flag)
            except engine_e3.Unsupported as e:
                memo[key] = ("undecided", "limb algebra: " + str(e)[:80])
            except RecursionError:
                memo[key] = ("undecided", "limb algebra: recursion limit")
        r = memo[key]
        if r[0] == "undecided":
            out.append(r)
        else:
            ok = r[0] if part == "value" else r[1]
            if ok is None:
                out.append(("undecided", "limb algebra: no flag in this root"))
            else:
                out.append(("equal", "limb algebra") if ok else ("different", "limb algebra: the result polynomial / overflow test differs from the specification's"))
    return out


def results(api, tier, fams):
    """-> {oid: (Pair, verdict, how)}"""
    pairs = gen_pairs(api, tier, fams)
    crates = []
    for fam, ps in pairs.items():
        crates += crates_for(fam, ps)
    built = B.build("on", crates)
    astamp = C.file_hash(os.path.join(HERE, "engine_e.py"), os.path.join(HERE, "engine_e2.py"), os.path.join(HERE, "engine_e3.py"), os.path.join(HERE, "llir.py"))
    jobs, res = [], {}
    for cr in crates:
        ll = built[cr.name]["ll"]
        fpath = ll[:-3] + ".E.json"
        with open(ll + ".stamp") as fh:
            stamp = C.text_hash(fh.read(), astamp)
        if C.stamp_ok(fpath, stamp):
            res[cr.name] = C.load_json(fpath)
        else:
            jobs.append((cr, fpath, stamp))
    if jobs:
        C.log("[E] comparing pairs in %d crate(s) ..." % len(jobs))
        with ProcessPoolExecutor(max_workers=min(16, os.cpu_count() or 4)) as ex:
            for (cr, fpath, stamp), r in zip(jobs, ex.map(_compare_crate, [(built[j[0].name]["ll"], len(j[0].pairs), [getattr(q, "alg", None) for q in j[0].pairs])
                                                                       for j in jobs])):
                C.save_json(fpath, r, indent=None)
                C.write_stamp(fpath, stamp)
                res[cr.name] = r
    out = collections.OrderedDict()
    for cr in crates:
        dropped = built[cr.name]["dropped"]
        for k, p in enumerate(cr.pairs):
            if ("a__%d" % k) in dropped or ("b__%d" % k) in dropped:
                why = dropped.get("a__%d" % k) or dropped.get("b__%d" % k)
                out[p.oid] = (p, "unanalysed", "does not type-check: " + why[:100])
            else:
                v, how = res[cr.name][k]
                out[p.oid] = (p, v, how)
    return out


def load_registry():
    return C.load_json(REGISTRY, default={"classes": {}})["classes"]


def run(report, tier, fams, label, select=None):
    ctx = run_a.context(tier)
    R = results(ctx["api"], tier, fams)
    reg = load_registry()
    stats = collections.Counter()
    viol = collections.defaultdict(list)
    samples = []
    undecided_classes = collections.Counter()
    per_family = collections.Counter()
    how_counts = collections.Counter()
    for oid, (p, v, how) in R.items():
        if p.expect == "different":
            # controls of every family built for this run are checked, whatever the selection
            if p.family == "E-alg" and v == "undecided":
                # the body is outside the limb algebra's fragment (possible on a changed tree): the control did
                # not accept a wrong specification, and the registered obligations of that layout fail below
                stats["controls"] += 1
                continue
            if v != "different":
                raise run_a.EngineError("E control %s: two different functions compare as %s (%s)" % (oid, v, how))
            stats["controls"] += 1
            continue
        if select is not None and not select(p):
            continue
        stats["candidates"] += 1
        e = reg.get(p.cls)
        registered = e is not None and e.get("registered") and p.layout not in e.get("except", [])
        if v == "unanalysed":
            stats["unanalysed"] += 1
            continue
        if not registered:
            stats["unregistered_" + v] += 1
            undecided_classes[p.cls] += 1
            continue
        stats["obligations"] += 1
        per_family[p.family] += 1
        if v == "equal":
            stats["discharged"] += 1
            how_counts[how] += 1
            if len(samples) < 4 and p.family not in {s["family"] for s in samples}:
                samples.append({"family": p.family, "obligation": oid, "a": p.a[:140], "b": p.b[:160], "how": how})
        else:
            viol[p.cls].append((p, v, how))
    for cls, items in viol.items():
        p0, v0, how0 = items[0]
        report.violation("E:" + label, "E|" + cls,
                         "`%s` is no longer the same function as its %s `%s` (registered as identical on the pinned "
                         "tree; now: %s)" % (p0.a[:120], "specification" if p0.family not in ("E-wrap", "E-del", "E-pol", "E-sat") else "sibling",
                                             p0.b[:160], how0),
                         {"class": cls, "layouts": [p.layout for (p, _v, _h) in items][:40],
                          "count": len(items), "a": p0.a, "b": p0.b, "verdict": v0})
    floors = C.load_json(run_a.FLOORS_PATH, default={})
    want = floors.get(tier, {}).get("E:" + label)
    if want is not None and stats["obligations"] < want:
        raise run_a.EngineError("only %d registered equality obligations generated for %s, floor %d" % (
            stats["obligations"], label, want))
    return {"engine": "E (alias by LLVM MergeFunctions or equal graph canonical form of post-LTO IR)",
            "families": list(fams), "pairs_generated": stats["candidates"], "obligations": stats["obligations"],
            "discharged": stats["discharged"], "per_family": dict(per_family), "discharged_by": dict(how_counts),
            "not_registered": {"equal": stats["unregistered_equal"], "different": stats["unregistered_different"],
                               "undecided": stats["unregistered_undecided"]},
            "unregistered_classes": len(undecided_classes), "unanalysed": stats["unanalysed"],
            "controls_passed": stats["controls"], "samples": samples, "floor": want}


def prime(tier):
    ctx = run_a.context(tier)
    results(ctx["api"], tier, ["wrap", "pol", "mask", "rem", "div", "codec", "cmp", "cmpx", "del", "conv", "alg", "serde"])
