"""Engine E, second normal form ("term form") for loop-free, store-free roots.

Stage 1 (engine_e.Canon) identifies two bodies only when LLVM left them with the
same CFG and the same instruction DAG.  This stage removes three accidental
differences, by rewriting only -- nothing is executed and no solver is asked:

* control flow: the function is if-converted (gated SSA): a phi becomes a
  selection over the branch conditions that lead to it, `select`, `and`/`or`
  on i1 and conditional branches all become the same thing;
* predicates: every i1 value is kept as a reduced ordered decision diagram over
  *atoms*; an ordering or equality test whose operands are exact integer
  expressions (extensions, shifts/additions that cannot wrap -- by flag or by
  the operands' ranges, constants, complement) becomes a threshold atom
  `P < c` over a gcd-reduced linear form P of signed leaf values, so the width
  of the comparison, the operand order, `<` vs `<=`, signed vs unsigned tests
  of a value of known sign, and range idioms all coincide; thresholds over the
  same P are ordered (P < c implies P < c'), which is conjoined as a domain
  constraint;
* values: a value that depends on conditions is a list (value, guard) with
  disjoint guards, sorted; the last guard is implicit.

Equality of the two canonical results is sufficient for the two functions to
be equal on every input; anything not understood raises Unsupported and the
stage-1 verdict stands."""
import re
import time
from math import gcd

from . import engine_e as E1

VAL = r'(%"[^"]+"|%[\w.$-]+|-?\d+|true|false|undef|poison|null|zeroinitializer)'
RE_BIN = re.compile(r'^(add|sub|mul|shl|lshr|ashr|and|or|xor|udiv|sdiv|urem|srem)((?: (?:nuw|nsw|exact|disjoint))*) (i\d+) ' + VAL + ', ' + VAL + '$')
RE_ICMP = re.compile(r'^icmp (samesign )?(eq|ne|ugt|uge|ult|ule|sgt|sge|slt|sle) (i\d+|ptr) ' + VAL + ', ' + VAL + '$')
RE_CAST = re.compile(r'^(zext|sext|trunc)((?: (?:nneg|nuw|nsw))*) (i\d+) ' + VAL + ' to (i\d+)$')
RE_LOAD = re.compile(r'^load (.+?), ptr ' + VAL + '$')
RE_CALL = re.compile(r'^(?:tail |musttail |notail )?call (?:(?:fastcc|noundef|zeroext|signext|range\([^)]*\)) )*(.+?) @("[^"]+"|[\w.$]+)\((.*)\)$')
RE_INSV = re.compile(r'^insertvalue (\{.*?\}) ' + VAL + ', (.+?) ' + VAL + r', (\d+)$')
RE_EXTV = re.compile(r'^extractvalue (\{.*?\}|.+?) ' + VAL + r', (\d+)$')
RE_FREEZE = re.compile(r'^freeze (.+?) ' + VAL + '$')
RE_PHI_IN = re.compile(r'\[\s*([^,\]]+?)\s*,\s*(%"[^"]+"|%[\w.$-]+)\s*\]')

MAX_PATHS = 3000
MAX_NODES = 200000
MAX_BDD = 100000
MAX_STEPS = 400000
PURE_OPS = {"add", "sub", "mul", "shl", "lshr", "ashr", "and", "or", "xor", "udiv", "sdiv", "urem", "srem",
            "icmp", "zext", "sext", "trunc", "select", "phi", "load", "insertvalue", "extractvalue", "freeze",
            "getelementptr"}
MAX_CASES = 24


class Unsupported(Exception):
    pass


def _strip(rhs):
    """like engine_e.strip_meta but keeps the no-wrap flags; drops parameter attributes"""
    s = re.sub(r',\s*![\w.]+\s+![\w.{}]+', '', rhs)
    s = re.sub(r',\s*![\w.]+\s+!\{[^}]*\}', '', s)
    s = re.sub(r'\s#\d+', '', s)
    s = re.sub(r'\b(range|captures|dereferenceable|dereferenceable_or_null|initializes|memory|nofpclass)\((?:[^()]|\([^()]*\))*\)\s*', '', s)
    s = re.sub(r',?\s*align \d+', '', s)
    s = re.sub(r'\b(noundef|nonnull|zeroext|signext|noalias|readonly|nocapture|inbounds|nusw)\s+', '', s)
    return re.sub(r'\s+', ' ', s).strip()


def _width(ty):
    m = re.match(r'^i(\d+)$', ty)
    if not m:
        raise Unsupported("non-integer type " + ty)
    return int(m.group(1))


class Store:
    """hash-consed terms, decision diagrams and atoms shared by the two functions of a pair"""

    def __init__(self):
        self.ids = {}
        self.node = [None]
        # decision diagrams: 0 = false, 1 = true, others index self.bdd
        self.bdd = [None, None]
        self.bdd_ids = {}
        self.atom_var = {}        # atom key -> variable number
        self.var_atom = []
        self._and = {}
        self._not = {}
        self.thresholds = {}      # P -> {c: var}
        self.steps = 0

    def mk(self, *t):
        i = self.ids.get(t)
        if i is None:
            if len(self.node) > MAX_NODES:
                raise Unsupported("term budget exhausted")
            i = self.ids[t] = len(self.node)
            self.node.append(t)
        return i

    # -- decision diagrams ----------------------------------------------------
    def _bnode(self, var, lo, hi):
        if lo == hi:
            return lo
        k = (var, lo, hi)
        i = self.bdd_ids.get(k)
        if i is None:
            if len(self.bdd) > MAX_BDD:
                raise Unsupported("decision-diagram budget exhausted")
            i = self.bdd_ids[k] = len(self.bdd)
            self.bdd.append(k)
        return i

    def var(self, key):
        v = self.atom_var.get(key)
        if v is None:
            v = self.atom_var[key] = len(self.var_atom)
            self.var_atom.append(key)
        return self._bnode(v, 0, 1)

    def b_not(self, a):
        if a < 2:
            return 1 - a
        r = self._not.get(a)
        if r is None:
            v, lo, hi = self.bdd[a]
            r = self._not[a] = self._bnode(v, self.b_not(lo), self.b_not(hi))
        return r

    def b_and(self, a, b):
        if a == b:
            return a
        if a == 0 or b == 0:
            return 0
        if a == 1:
            return b
        if b == 1:
            return a
        if a > b:
            a, b = b, a
        r = self._and.get((a, b))
        if r is None:
            self.steps += 1
            if self.steps > MAX_STEPS:
                raise Unsupported("decision-diagram budget exhausted")
            va, la, ha = self.bdd[a]
            vb, lb, hb = self.bdd[b]
            if va == vb:
                r = self._bnode(va, self.b_and(la, lb), self.b_and(ha, hb))
            elif va < vb:
                r = self._bnode(va, self.b_and(la, b), self.b_and(ha, b))
            else:
                r = self._bnode(vb, self.b_and(a, lb), self.b_and(a, hb))
            self._and[(a, b)] = r
        return r

    def b_or(self, a, b):
        return self.b_not(self.b_and(self.b_not(a), self.b_not(b)))

    def b_ite(self, c, x, y):
        return self.b_or(self.b_and(c, x), self.b_and(self.b_not(c), y))

    # -- threshold atoms ------------------------------------------------------
    def threshold(self, P, c, lo, hi):
        """P < c for the linear part P (tuple of (leaf, coeff), gcd 1, first coeff > 0) whose value lies in [lo, hi]"""
        if c <= lo:
            return 0
        if c > hi:
            return 1
        d = self.thresholds.setdefault(P, {})
        v = d.get(c)
        if v is None:
            v = d[c] = self.var(("thr", P, c))
        return v

    def domain(self):
        """conjunction of `P < c  implies  P < c'` for consecutive thresholds of one linear part, and of the interval
        consequences of single-leaf thresholds for the linear parts over two or three of those leaves
        (x < c1 and not y < c2  implies  x - y < c1 - c2, ...): bounds propagation, each conjunct is a valid
        implication over the integers"""
        k = 1
        for P, d in self.thresholds.items():
            cs = sorted(d)
            for c1, c2 in zip(cs, cs[1:]):
                k = self.b_and(k, self.b_or(self.b_not(d[c1]), d[c2]))
        single = {}
        for P, d in self.thresholds.items():
            if len(P) == 1 and P[0][1] == 1:
                single[P[0][0]] = d
        for P, d in list(self.thresholds.items()):
            if not 2 <= len(P) <= 3 or not all(t in single for t, _x in P):
                continue
            cells = []
            n = 1
            for t, x in P:
                w = _width(self.node[t][1])
                lo, hi = -(1 << (w - 1)), (1 << (w - 1)) - 1
                cs = sorted(single[t])
                edges = [lo] + cs + [hi + 1]
                cl = []
                for j in range(len(edges) - 1):
                    a, b = edges[j], edges[j + 1] - 1          # the leaf lies in [a, b]
                    if a > b:
                        continue
                    g = 1
                    if j < len(cs):
                        g = self.b_and(g, single[t][cs[j]])                      # below the j-th threshold
                    if j > 0:
                        g = self.b_and(g, self.b_not(single[t][cs[j - 1]]))      # not below the previous one
                    cl.append((a * x, b * x, g) if x > 0 else (b * x, a * x, g))
                cells.append(cl)
                n *= len(cl)
            if n > 200:
                continue
            combos = [(0, 0, 1)]
            for cl in cells:
                combos = [(lo + a, hi + b, self.b_and(g, g2)) for (lo, hi, g) in combos for (a, b, g2) in cl]
            for lo, hi, g in combos:
                if g == 0:
                    continue
                for th, v in d.items():
                    if hi < th:
                        k = self.b_and(k, self.b_or(self.b_not(g), v))
                    elif lo >= th:
                        k = self.b_and(k, self.b_or(self.b_not(g), self.b_not(v)))
        return k


UNDEF = ("u",)


class Term:
    """builds the canonical result of one function"""

    def __init__(self, mod, fname, store, depth=0, stack=()):
        self.S = store
        self.mod = mod
        self.depth = depth
        self.stack = stack + (fname,)
        self.bind = {}                                 # parameter name -> value (a callee evaluated in place)
        self.c = E1.Canon(mod, fname, {})          # reuse the block / definition parser
        self.mod_head = mod.body(self.c.f)[0]
        self.paths = 0
        self.flags = {}
        self.phis = {}
        for b, ins in self.c.blocks.items():
            for s in ins:
                m = re.match(r'^(%"[^"]+"|%[\w.$-]+) = phi (.*)$', s)
                if m:
                    self.phis.setdefault(b, []).append((m.group(1), m.group(2)))
        self.arg_ty = {}
        for name, i in self.c.args.items():
            ty = self.c.arg_types[i].split()[0] if self.c.arg_types[i] else "?"
            self.arg_ty[name] = (i, ty)

    # ---- value representation ------------------------------------------------
    # a value is ("b", bdd) for i1, ("t", (values...)) for aggregates, ("u",) for undef, or
    # ("v", ty, ((term, guard), ...)) : a sorted case list with disjoint guards (single entry: guard 1)
    def single(self, ty, term):
        return ("v", ty, ((term, 1),))

    def const(self, ty, tok):
        if tok in ("undef", "poison"):
            return UNDEF
        if ty == "i1":
            if tok in ("true", "1", "-1"):
                return ("b", 1)
            if tok in ("false", "0"):
                return ("b", 0)
            raise Unsupported("i1 constant " + tok)
        if ty == "ptr":
            return self.single(ty, self.S.mk("const", ty, tok))
        if tok in ("zeroinitializer", "null"):
            tok = "0"
        if tok in ("true", "false"):
            raise Unsupported("bool constant of type " + ty)
        w = _width(ty)
        return self.single(ty, self.S.mk("const", ty, int(tok) & ((1 << w) - 1)))

    def cases(self, v):
        if v[0] == "v":
            return list(v[2])
        raise Unsupported("case list of " + v[0])

    def mk_cases(self, ty, items):
        """items: (term, guard) with disjoint guards"""
        S = self.S
        acc = {}
        for t, g in items:
            if g == 0:
                continue
            acc[t] = S.b_or(acc.get(t, 0), g)
        if not acc:
            raise Unsupported("empty case list")
        if len(acc) > MAX_CASES:
            raise Unsupported("too many cases")
        return ("v", ty, tuple(sorted(acc.items())))

    def ite(self, c, x, y):
        """c: bdd; x, y: values"""
        S = self.S
        if c == 1:
            return x
        if c == 0:
            return y
        if x == y:
            return x
        if x[0] == "u" or y[0] == "u":
            # the undefined arm is a don't-care: the defined arm keeps its cases, restricted to the inputs that
            # select it (the rest stays unspecified and is ignored by `same`)
            d, g = (y, S.b_not(c)) if x[0] == "u" else (x, c)
            if d[0] == "v":
                items = [(t, S.b_and(gg, g)) for t, gg in d[2]]
                items = [(t, gg) for t, gg in items if gg != 0]
                if not items:
                    return UNDEF
                return self.mk_cases(d[1], items)
            return d
        if x[0] == "b" and y[0] == "b":
            return ("b", S.b_ite(c, x[1], y[1]))
        if x[0] == "bot":
            return y
        if y[0] == "bot":
            return x
        if x[0] == "t" and y[0] == "t" and len(x[1]) == len(y[1]):
            return ("t", tuple(self.ite(c, a, b) for a, b in zip(x[1], y[1])))
        if x[0] == "m" and y[0] == "m":
            if [k for k, _v in x[1]] != [k for k, _v in y[1]]:
                raise Unsupported("paths store to different parts of the sret slot")
            return ("m", tuple((k, self.ite(c, a, b)) for (k, a), (_k, b) in zip(x[1], y[1])))
        if x[0] == "v" and y[0] == "v":
            nc = S.b_not(c)
            return self.mk_cases(x[1], [(t, S.b_and(g, c)) for t, g in x[2]] + [(t, S.b_and(g, nc)) for t, g in y[2]])
        if x[0] == "bot":
            return y
        if y[0] == "bot":
            return x
        raise Unsupported("ite of %s and %s" % (x[0], y[0]))

    def lift(self, ty, vals, fn):
        """apply fn(terms...) -> term over the case lists of vals"""
        S = self.S
        combos = [((), 1)]
        for v in vals:
            if v[0] == "u":
                return UNDEF
            cs = self.cases(v)
            combos = [(ts + (t,), S.b_and(g, g2)) for (ts, g) in combos for (t, g2) in cs]
            combos = [x for x in combos if x[1] != 0]
            if len(combos) > MAX_CASES:
                raise Unsupported("too many case combinations")
        return self.mk_cases(ty, [(fn(*ts), g) for ts, g in combos])

    def lift_bool(self, vals, fn):
        """fn(terms...) -> bdd"""
        S = self.S
        combos = [((), 1)]
        for v in vals:
            if v[0] == "u":
                return ("b", 0)
            cs = self.cases(v)
            combos = [(ts + (t,), S.b_and(g, g2)) for (ts, g) in combos for (t, g2) in cs]
            combos = [x for x in combos if x[1] != 0]
            if len(combos) > MAX_CASES:
                raise Unsupported("too many case combinations")
        r = 0
        for ts, g in combos:
            r = S.b_or(r, S.b_and(g, fn(*ts)))
        return ("b", r)

    def mk_op(self, ty, name, ops, flags):
        """flags are not part of a term's identity; a term counts as flagged in this function only if every
        instruction of this function that computes it carries the flag"""
        r = self._simplify(ty, name, tuple(ops), flags)
        if r is not None:
            return r
        t = self.S.mk("op", ty, name, tuple(ops))
        fl = frozenset(flags)
        old = self.flags.get(t)
        self.flags[t] = fl if old is None else (old & fl)
        return t

    # ---- bit-slice normalisation (ring identities modulo 2^w; no flags are assumed or produced) ------------
    def _shl_const(self, t):
        """(x, k) if t is shl(x, const k) with 0 < k < width, else None"""
        n = self.S.node[t]
        if n[0] == "op" and n[2] == "shl":
            k = self.S.node[n[3][1]]
            if k[0] == "const" and 0 < k[2] < _width(n[1]):
                return n[3][0], k[2]
        return None

    def _simplify(self, ty, name, ops, flags=()):
        S = self.S
        # constant folding (constants reach operations through phis and selects)
        if all(S.node[o][0] == "const" and isinstance(S.node[o][2], int) for o in ops) and re.match(r"^i\d+$", ty):
            w = _width(ty)
            mask = (1 << w) - 1
            v = [S.node[o][2] for o in ops]
            sv = [x - (1 << _width(S.node[o][1])) if x >> (_width(S.node[o][1]) - 1) else x for x, o in zip(v, ops)]
            r = None
            if len(ops) == 2:
                a, b = v
                if name == "add":
                    r = a + b
                elif name == "sub":
                    r = a - b
                elif name == "mul":
                    r = a * b
                elif name == "and":
                    r = a & b
                elif name == "or":
                    r = a | b
                elif name == "xor":
                    r = a ^ b
                elif name == "shl" and b < w:
                    r = a << b
                elif name == "lshr" and b < w:
                    r = a >> b
                elif name == "ashr" and b < w:
                    r = sv[0] >> b
            elif len(ops) == 1:
                if name in ("zext", "trunc"):
                    r = v[0]
                elif name == "sext":
                    r = sv[0]
            if r is not None:
                return S.mk("const", ty, r & mask)
        # neutral and absorbing constants
        if len(ops) == 2 and re.match(r"^i\d+$", ty):
            w = _width(ty)
            for i in (0, 1):
                k = S.node[ops[i]]
                if k[0] != "const" or not isinstance(k[2], int):
                    continue
                o = ops[1 - i]
                commut = name in ("add", "or", "xor", "and", "mul")
                if not commut and i == 0:
                    continue
                if k[2] == 0 and name in ("add", "or", "xor", "sub", "shl", "lshr", "ashr"):
                    return o
                if k[2] == 0 and name in ("and", "mul"):
                    return S.mk("const", ty, 0)
                if k[2] == (1 << w) - 1 and name == "and":
                    return o
                if k[2] == 1 and name == "mul":
                    return o
        if name == "mul":
            # (x << k) * y == (x * y) << k  modulo 2^w
            for i in (0, 1):
                sc = self._shl_const(ops[i])
                if sc is not None:
                    x, k = sc
                    y = ops[1 - i]
                    p, q = (x, y) if x <= y else (y, x)
                    inner = self.mk_op(ty, "mul", (p, q), ())
                    return self.mk_op(ty, "shl", (inner, S.mk("const", ty, k)), ())
        if name == "shl":
            k = S.node[ops[1]]
            sc = self._shl_const(ops[0])
            if k[0] == "const" and sc is not None:
                w = _width(ty)
                if sc[1] + k[2] >= w:
                    return S.mk("const", ty, 0)
                return self.mk_op(ty, "shl", (sc[0], S.mk("const", ty, sc[1] + k[2])), ())
        if name == "trunc":
            # the bits [s, s+wt) of (P << k) are the bits [s-k, s-k+wt) of P when s >= k and s + wt <= w
            n = S.node[ops[0]]
            if n[0] == "op" and n[2] == "lshr":
                sk = S.node[n[3][1]]
                sc = self._shl_const(n[3][0])
                if sk[0] == "const" and sc is not None:
                    w, wt = _width(n[1]), _width(ty)
                    s_, (P, k) = sk[2], sc
                    if s_ >= k and s_ + wt <= w:
                        inner = P if s_ == k else self.mk_op(n[1], "lshr", (P, S.mk("const", n[1], s_ - k)), ())
                        return self.mk_op(ty, "trunc", (inner,), ())
            if flags:
                return None
            w, wt = _width(n[1]), _width(ty)
            if n[0] == "const":
                return S.mk("const", ty, n[2] & ((1 << wt) - 1))
            if n[0] != "op":
                return None
            nm, nops = n[2], n[3]
            if nm == "ashr":
                # the low wt bits of an arithmetic and of a logical shift agree while s + wt <= w
                sk = S.node[nops[1]]
                if sk[0] == "const" and sk[2] + wt <= w:
                    return self.mk_op(ty, "trunc", (self.mk_op(n[1], "lshr", nops, ()),), ())
            if nm in ("mul", "add", "sub", "and", "or", "xor"):
                # truncation is a ring homomorphism
                p = self.mk_op(ty, "trunc", (nops[0],), ())
                q = self.mk_op(ty, "trunc", (nops[1],), ())
                if nm != "sub" and p > q:
                    p, q = q, p
                return self.mk_op(ty, nm, (p, q), ())
            if nm in ("zext", "sext", "trunc"):
                wi = _width(S.node[nops[0]][1])
                if wi == wt:
                    return nops[0]
                if wi > wt or nm == "trunc":
                    return self.mk_op(ty, "trunc", (nops[0],), ())
                return self.mk_op(ty, nm, (nops[0],), ())
            if nm == "shl":
                sk = S.node[nops[1]]
                if sk[0] == "const":
                    if sk[2] >= wt:
                        return S.mk("const", ty, 0)
                    return self.mk_op(ty, "shl", (self.mk_op(ty, "trunc", (nops[0],), ()), S.mk("const", ty, sk[2])), ())
        return None

    # ---- exact products ---------------------------------------------------------
    def _prod_leaf(self, l1, l2):
        """leaf standing for the exact integer product of two leaf values; its pseudo-type is wide enough for
        every product of the two readings"""
        S = self.S
        (m1, t1), (m2, t2) = sorted((l1, l2), key=lambda l: (l[1], l[0]))
        for t in (t1, t2):
            n = S.node[t]
            if n[0] == "op" and n[2].startswith("xmul"):
                return None
        w = _width(S.node[t1][1]) + _width(S.node[t2][1]) + 1
        return ("S", S.mk("op", "i%d" % w, "xmul" + m1 + m2, (t1, t2)))

    def _product(self, a, b):
        ca, ka, la, ha = a
        cb, kb, lb, hb = b
        if len(ca) * len(cb) > 4:
            return None
        c = {}
        for l, x in ca.items():
            c[l] = c.get(l, 0) + x * kb
        for l, x in cb.items():
            c[l] = c.get(l, 0) + x * ka
        for l1, x1 in ca.items():
            for l2, x2 in cb.items():
                pl = self._prod_leaf(l1, l2)
                if pl is None:
                    return None
                c[pl] = c.get(pl, 0) + x1 * x2
        cs = (la * lb, la * hb, ha * lb, ha * hb)
        return ({l: x for l, x in c.items() if x}, ka * kb, min(cs), max(cs))

    def _srange(self, t):
        """range of the signed reading of a leaf term"""
        n = self.S.node[t]
        w = _width(n[1])
        if n[0] == "op" and n[2].startswith("xmul"):
            rs = []
            for m, f in zip(n[2][4:6], n[3]):
                wf = _width(self.S.node[f][1])
                rs.append((-(1 << (wf - 1)), (1 << (wf - 1)) - 1) if m == "S" else (0, (1 << wf) - 1))
            cs = [x * y for x in rs[0] for y in rs[1]]
            if n[3][0] == n[3][1] and n[2][4] == n[2][5]:
                return 0, max(cs)
            return min(cs), max(cs)
        return -(1 << (w - 1)), (1 << (w - 1)) - 1

    # ---- exact integer interpretation -----------------------------------------
    def interp(self, t, mode):
        """term t (bit-vector) as an exact integer: (coeffs {leaf: k}, const, lo, hi) with leaves ("S"|"U", term)"""
        S = self.S
        n = S.node[t]
        ty = n[1]
        w = _width(ty)
        if n[0] == "const":
            v = n[2]
            if mode == "S" and v >= 1 << (w - 1):
                v -= 1 << w
            return ({}, v, v, v)
        if n[0] == "op":
            name, ops = n[2], n[3]
            flags = self.flags.get(t, ())
            if name == "zext":
                return self.interp(ops[0], "U")           # exact in both readings
            if name == "sext" and mode == "S":
                return self.interp(ops[0], "S")
            if name == "trunc":
                r = self.interp(ops[0], mode)
                if self._fits(r, w, mode) or ("nsw" in flags and mode == "S") or ("nuw" in flags and mode == "U"):
                    return r
            if name == "xor" and S.node[ops[1]][0] == "const" and S.node[ops[1]][2] == (1 << w) - 1:
                c, k, lo, hi = self.interp(ops[0], mode)
                base = -1 if mode == "S" else (1 << w) - 1
                return ({l: -x for l, x in c.items()}, base - k, base - hi, base - lo)
            if name in ("add", "sub") or (name == "or" and "disjoint" in flags):
                a = self.interp(ops[0], mode)
                b = self.interp(ops[1], mode)
                sg = -1 if name == "sub" else 1
                c = dict(a[0])
                for l, x in b[0].items():
                    c[l] = c.get(l, 0) + sg * x
                c = {l: x for l, x in c.items() if x}
                lo = a[2] + (b[2] if sg > 0 else -b[3])
                hi = a[3] + (b[3] if sg > 0 else -b[2])
                r = (c, a[1] + sg * b[1], lo, hi)
                if self._fits(r, w, mode) or ("nsw" in flags and mode == "S") or ("nuw" in flags and mode == "U"):
                    return r
            if name in ("shl", "mul") and S.node[ops[1]][0] == "const":
                kk = S.node[ops[1]][2]
                if name == "shl":
                    if kk >= w:
                        return self._leaf(t, mode, w)
                    f = 1 << kk
                else:
                    f = kk if (mode == "U" or kk < 1 << (w - 1)) else kk - (1 << w)
                a = self.interp(ops[0], mode)
                lo, hi = sorted((a[2] * f, a[3] * f))
                r = ({l: x * f for l, x in a[0].items()}, a[1] * f, lo, hi)
                if f != 0 and (self._fits(r, w, mode) or ("nsw" in flags and mode == "S") or ("nuw" in flags and mode == "U")):
                    return r
            if name == "mul":
                r = self._product(self.interp(ops[0], mode), self.interp(ops[1], mode))
                if r is not None and (self._fits(r, w, mode) or ("nsw" in flags and mode == "S") or ("nuw" in flags and mode == "U")):
                    return r
            if name.startswith("xmul"):
                return ({("S", t): 1}, 0) + self._srange(t)
        return self._leaf(t, mode, w)

    @staticmethod
    def _fits(r, w, mode):
        if mode == "S":
            return -(1 << (w - 1)) <= r[2] and r[3] <= (1 << (w - 1)) - 1
        return 0 <= r[2] and r[3] <= (1 << w) - 1

    def _leaf(self, t, mode, w):
        if mode == "S":
            return ({("S", t): 1}, 0, -(1 << (w - 1)), (1 << (w - 1)) - 1)
        return ({("U", t): 1}, 0, 0, (1 << w) - 1)

    def less(self, a, b, strict=True):
        """bdd of  a < b  (or a <= b) for two interpretations"""
        c = dict(a[0])
        for l, x in b[0].items():
            c[l] = c.get(l, 0) - x
        k = a[1] - b[1] + (0 if strict else -1)
        return self._lt0({l: x for l, x in c.items() if x}, k)

    def _lt0(self, c, k):
        """bdd of  sum c[l]*l + k < 0 ; unsigned leaves are split at the sign of the same bits"""
        S = self.S
        for l in sorted(c, key=repr):
            if l[0] == "U":
                t = l[1]
                w = _width(S.node[t][1])
                x = c[l]
                c2 = {m: y for m, y in c.items() if m != l}
                c2[("S", t)] = c2.get(("S", t), 0) + x
                c2 = {m: y for m, y in c2.items() if y}
                neg = self._lt0({("S", t): 1}, 0)
                return S.b_ite(neg, self._lt0(dict(c2), k + x * (1 << w)), self._lt0(dict(c2), k))
        if not c:
            return 1 if k < 0 else 0
        items = sorted(c.items(), key=lambda z: z[0][1])
        g = 0
        for _l, x in items:
            g = gcd(g, abs(x))
        # g*P + k < 0  <=>  P < ceil(-k / g)
        thr = -(k // g)                      # ceil(-k/g) == -floor(k/g)
        P = tuple((l[1], x // g) for l, x in items)
        flip = P[0][1] < 0
        if flip:
            # -P' < thr  <=>  P' > -thr  <=>  not (P' < -thr + 1)
            P = tuple((t, -x) for t, x in P)
            thr = -thr + 1
        lo = hi = 0
        for t, x in P:
            a, b = self._srange(t)
            a, b = a * x, b * x
            lo += min(a, b)
            hi += max(a, b)
        if len(P) == 1 and P[0][1] == 1:
            r = self.s_lt(P[0][0], thr)
        else:
            r = S.threshold(P, thr, lo, hi)
        return S.b_not(r) if flip else r

    def s_lt(self, t, c, depth=0):
        """bdd of S(t) < c; shifts right, extensions and additions of a constant are read through, so that the
        atom is a threshold on the innermost value"""
        S = self.S
        n = S.node[t]
        w = _width(n[1])
        m, M = self._srange(t)
        if c <= m:
            return 0
        if c > M:
            return 1
        if n[0] == "op" and n[2].startswith("xmul"):
            return S.threshold(((t, 1),), c, m, M)
        if n[0] == "op" and depth < 8:
            lin = self.interp(t, "S")
            if lin[0] != {("S", t): 1}:
                return self._lt0(dict(lin[0]), lin[1] - c)          # an exact expression of other values
            ul = self.interp(t, "U")
            if ul[0] != {("U", t): 1}:
                # exact only in the unsigned reading: the signed reading is that value, minus 2^w in the upper half
                low = self._lt0(dict(ul[0]), ul[1] - (1 << (w - 1)))
                return S.b_ite(low, self._lt0(dict(ul[0]), ul[1] - c), self._lt0(dict(ul[0]), ul[1] - (1 << w) - c))
            name, ops = n[2], n[3]
            k = S.node[ops[1]] if len(ops) == 2 else None
            k0 = S.node[ops[0]] if len(ops) == 2 else None
            if name == "ashr" and k[0] == "const" and k[2] < w:
                return self.s_lt(ops[0], c << k[2], depth + 1)
            if name == "lshr" and k[0] == "const" and 0 < k[2] < w:
                return self.u_lt(ops[0], c << k[2], depth + 1)
            if name == "zext":
                return self.u_lt(ops[0], c, depth + 1)
            if name == "sext":
                return self.s_lt(ops[0], c, depth + 1)
            cst = x = None
            if name in ("add", "xor") and k[0] == "const":
                cst, x = k[2], ops[0]
            elif name in ("add", "xor") and k0[0] == "const":
                cst, x = k0[2], ops[1]
            if cst is not None and (name == "add" or cst == 1 << (w - 1)):
                cs = cst - (1 << w) if cst >= 1 << (w - 1) else cst

                def X(v):                      # S(x) + cs < v
                    return self.s_lt(x, v - cs, depth + 1)
                p1 = S.b_and(S.b_and(S.b_not(X(m)), X(M + 1)), X(c))
                p2 = S.b_and(S.b_not(X(M + 1)), X(c + (1 << w)))
                p3 = S.b_and(X(m), X(c - (1 << w)))
                return S.b_or(p1, S.b_or(p2, p3))
        if n[0] == "call" and n[2].startswith("llvm.ctlz.") and depth < 8:
            # ctlz(x) < c  <=>  one of the top c bits of x is set  <=>  U(x) >= 2^(w-c)
            if c <= 0:
                return 0
            if c > w:
                return 1
            return S.b_not(self.u_lt(n[3][0], 1 << (w - c), depth + 1))
        return S.threshold(((t, 1),), c, m, M)

    def u_lt(self, t, c, depth=0):
        """bdd of U(t) < c"""
        S = self.S
        w = _width(S.node[t][1])
        if c <= 0:
            return 0
        if c > (1 << w) - 1:
            return 1
        neg = self.s_lt(t, 0, depth)
        return S.b_ite(neg, self.s_lt(t, c - (1 << w), depth), self.s_lt(t, c, depth))

    def icmp(self, pred, ty, ta, tb):
        S = self.S
        if ty == "ptr":
            a, b = sorted((ta, tb))
            r = S.var(("eqbv", a, b))
            return r if pred == "eq" else S.b_not(r)
        if pred in ("eq", "ne"):
            a, b = self.interp(ta, "S"), self.interp(tb, "S")
            r = S.b_and(S.b_not(self.less(a, b)), S.b_not(self.less(b, a)))
            return r if pred == "eq" else S.b_not(r)
        mode = "S" if pred[0] == "s" else "U"
        a, b = self.interp(ta, mode), self.interp(tb, mode)
        p = pred[1:]
        if p == "lt":
            return self.less(a, b)
        if p == "le":
            return self.less(a, b, strict=False)
        if p == "gt":
            return self.less(b, a)
        return self.less(b, a, strict=False)

    # ---- instructions -----------------------------------------------------------
    def val(self, tok, ty, env):
        if tok[0] == "%":
            if tok in self.bind:
                return self.bind[tok]
            if tok in self.arg_ty:
                i, aty = self.arg_ty[tok]
                if aty == "i1":
                    return ("b", self.S.var(("arg", i)))
                return self.single(aty, self.S.mk("arg", aty, i))
            return self.get(tok, env)
        return self.const(ty, tok)

    def get(self, name, env):
        v = env.get(name)
        if v is not None:
            return v
        d = self.c.defs.get(name)
        if d is None:
            raise Unsupported("undefined value " + name)
        rhs = _strip(d[1])
        if rhs.startswith("phi "):
            raise Unsupported("phi %s read before its block was entered" % name)
        v = env[name] = self.instr(rhs, env)
        return v

    def agg_arity(self, ty):
        ty = ty.strip()
        if not (ty.startswith("{") and ty.endswith("}")):
            raise Unsupported("aggregate type " + ty)
        parts = E1._split_top(ty[1:-1])
        for p in parts:
            if "{" in p or "[" in p or "<" in p:
                raise Unsupported("nested aggregate " + ty)
        return [p.strip() for p in parts]

    def instr(self, rhs, env):
        S = self.S
        m = RE_BIN.match(rhs)
        if m:
            op, flags, ty, a, b = m.groups()
            flags = tuple(sorted(flags.split()))
            va, vb = self.val(a, ty, env), self.val(b, ty, env)
            if ty == "i1":
                x, y = self._b(va), self._b(vb)
                if op == "and":
                    return ("b", S.b_and(x, y))
                if op == "or":
                    return ("b", S.b_or(x, y))
                if op == "xor":
                    return ("b", S.b_or(S.b_and(x, S.b_not(y)), S.b_and(S.b_not(x), y)))
                raise Unsupported("i1 " + op)

            def f(p, q):
                if op in ("add", "mul", "and", "or", "xor") and p > q:
                    p, q = q, p
                return self.mk_op(ty, op, (p, q), flags)
            return self.lift(ty, [va, vb], f)
        m = RE_ICMP.match(rhs)
        if m:
            _ss, pred, ty, a, b = m.groups()
            va, vb = self.val(a, ty, env), self.val(b, ty, env)
            if ty == "i1":
                x, y = self._b(va), self._b(vb)
                e = S.b_not(S.b_or(S.b_and(x, S.b_not(y)), S.b_and(S.b_not(x), y)))
                if pred == "eq":
                    return ("b", e)
                if pred == "ne":
                    return ("b", S.b_not(e))
                raise Unsupported("ordering of i1")
            return self.lift_bool([va, vb], lambda p, q: self.icmp(pred, ty, p, q))
        m = RE_CAST.match(rhs)
        if m:
            op, flags, t1, a, t2 = m.groups()
            flags = tuple(sorted(flags.split()))
            va = self.val(a, t1, env)
            if t1 == "i1":
                x = self._b(va)
                one = S.mk("const", t2, 1 if op == "zext" else (1 << _width(t2)) - 1)
                zero = S.mk("const", t2, 0)
                return self.mk_cases(t2, [(one, x), (zero, S.b_not(x))])
            if t2 == "i1":
                # trunc to i1: the low bit
                return self.lift_bool([va], lambda p: S.var(("bit0", p)))
            return self.lift(t2, [va], lambda p: self.mk_op(t2, op, (p,), flags))
        if rhs.startswith("select "):
            parts = E1._split_top(rhs[len("select "):])
            if len(parts) != 3:
                raise Unsupported("select")
            ct, cv = parts[0].strip().rsplit(" ", 1)
            if ct.strip() != "i1":
                raise Unsupported("vector select")
            c = self._b(self.val(cv, "i1", env))
            t1, v1 = parts[1].strip().rsplit(" ", 1)
            t2, v2 = parts[2].strip().rsplit(" ", 1)
            # evaluate lazily: an arm that is never chosen need not be representable
            x = self.val(v1, t1.strip(), env) if c != 0 else UNDEF
            y = self.val(v2, t2.strip(), env) if c != 1 else UNDEF
            return self.ite(c, x, y)
        m = RE_LOAD.match(rhs)
        if m:
            ty, p = m.groups()
            vp = self.val(p, "ptr", env)
            if ty == "i1":
                raise Unsupported("load i1")
            return self.lift(ty, [vp], lambda q: S.mk("load", ty, q))
        m = RE_INSV.match(rhs)
        if m:
            aty, agg, ety, v, idx = m.groups()
            fields = self.agg_arity(aty)
            base = self.val(agg, aty, env) if agg[0] == "%" else None
            if base is None:
                if agg not in ("undef", "poison", "zeroinitializer"):
                    raise Unsupported("aggregate constant")
                base = ("t", tuple(UNDEF if agg != "zeroinitializer" else self.const(ft, "0") for ft in fields))
            if base[0] == "u":
                base = ("t", tuple(UNDEF for _ in fields))
            if base[0] != "t":
                raise Unsupported("insertvalue into " + base[0])
            el = list(base[1])
            el[int(idx)] = self.val(v, ety.strip(), env)
            return ("t", tuple(el))
        m = RE_EXTV.match(rhs)
        if m:
            aty, agg, idx = m.groups()
            base = self.val(agg, aty, env)
            if base[0] == "t":
                return base[1][int(idx)]
            if base[0] == "u":
                return UNDEF
            fields = self.agg_arity(aty)
            fty = fields[int(idx)]
            if fty == "i1":
                return self.lift_bool([base], lambda p: S.var(("field", p, int(idx))))
            return self.lift(fty, [base], lambda p: self.mk_op(fty, "extractvalue:%d" % int(idx), (p,), ()))
        m = RE_FREEZE.match(rhs)
        if m:
            return self.val(m.group(2), m.group(1).strip(), env)
        m = RE_CALL.match(rhs)
        if m:
            rty, callee, args = m.groups()
            if callee.startswith(E1.IGNORED_CALLS):
                return UNDEF
            if not callee.startswith(E1.PURE_CALLS):
                raise Unsupported("call to " + callee)
            vals = []
            for a in E1._split_top(args):
                a = a.strip()
                ty, tok = a.rsplit(" ", 1)
                ty = ty.strip()
                if ty == "i1":
                    bv = self._b(self.val(tok, "i1", env))
                    if bv not in (0, 1):
                        raise Unsupported("i1 argument of intrinsic")
                    vals.append(self.single("i1c", S.mk("const", "i1", bv)))
                else:
                    vals.append(self.val(tok, ty, env))
            rty = rty.strip()
            commut = any(cn in callee for cn in ("llvm.sadd.with.overflow", "llvm.uadd.with.overflow",
                                                 "llvm.smul.with.overflow", "llvm.umul.with.overflow", "llvm.sadd.sat",
                                                 "llvm.uadd.sat", "llvm.smax", "llvm.smin", "llvm.umax", "llvm.umin"))

            def f(*ps):
                ps = list(ps)
                if commut and len(ps) == 2 and ps[0] > ps[1]:
                    ps.reverse()
                return S.mk("call", rty, callee, tuple(ps))
            mo = re.match(r'^llvm\.([su])(add|sub)\.with\.overflow\.(i\d+)$', callee)
            if mo:
                sg, op, ty = mo.groups()
                mode = "S" if sg == "s" else "U"
                w = _width(ty)
                lo, hi = (-(1 << (w - 1)), (1 << (w - 1)) - 1) if sg == "s" else (0, (1 << w) - 1)

                def val0(p, q):
                    if op == "add" and p > q:
                        p, q = q, p
                    return self.mk_op(ty, op, (p, q), ())

                def ovf(p, q):
                    a, b = self.interp(p, mode), self.interp(q, mode)
                    sgn = 1 if op == "add" else -1
                    c = dict(a[0])
                    for l, x in b[0].items():
                        c[l] = c.get(l, 0) + sgn * x
                    c = {l: x for l, x in c.items() if x}
                    k = a[1] + sgn * b[1]
                    below = self._lt0(dict(c), k - lo)                 # r < lo
                    above = S.b_not(self._lt0(dict(c), k - (hi + 1)))   # not (r < hi + 1)
                    return S.b_or(below, above)
                return ("t", (self.lift(ty, vals, val0), self.lift_bool(vals, ovf)))
            mo = re.match(r'^llvm\.([su])mul\.with\.overflow\.(i\d+)$', callee)
            if mo:
                sg, ty = mo.groups()
                mode = "S" if sg == "s" else "U"
                w = _width(ty)
                lo, hi = (-(1 << (w - 1)), (1 << (w - 1)) - 1) if sg == "s" else (0, (1 << w) - 1)

                def mval0(p, q):
                    if p > q:
                        p, q = q, p
                    return self.mk_op(ty, "mul", (p, q), ())

                def movf(p, q):
                    r = self._product(self.interp(p, mode), self.interp(q, mode))
                    if r is None:
                        raise Unsupported("product of non-linear terms")
                    below = self._lt0(dict(r[0]), r[1] - lo)
                    above = S.b_not(self._lt0(dict(r[0]), r[1] - (hi + 1)))
                    return S.b_or(below, above)
                return ("t", (self.lift(ty, vals, mval0), self.lift_bool(vals, movf)))
            mo = re.match(r'^llvm\.([su])(max|min)\.(i\d+)$', callee)
            if mo:
                sg, mm, ty = mo.groups()
                mode = "S" if sg == "s" else "U"
                a, b = vals
                c = self.lift_bool([a, b], lambda p, q: self.less(self.interp(p, mode), self.interp(q, mode)))[1]
                return self.ite(c, b, a) if mm == "max" else self.ite(c, a, b)
            mo = re.match(r'^llvm\.([su])cmp\.(i\d+)\.(i\d+)$', callee)
            if mo:
                sg, rt2, ty = mo.groups()
                mode = "S" if sg == "s" else "U"
                a, b = vals
                lt = self.lift_bool([a, b], lambda p, q: self.less(self.interp(p, mode), self.interp(q, mode)))[1]
                gt = self.lift_bool([a, b], lambda p, q: self.less(self.interp(q, mode), self.interp(p, mode)))[1]
                return self.ite(lt, self.const(rt2, "-1"), self.ite(gt, self.const(rt2, "1"), self.const(rt2, "0")))
            mo = re.match(r'^llvm\.abs\.(i\d+)$', callee)
            if mo:
                ty = mo.group(1)
                a = vals[0]
                neg = self.lift_bool([a], lambda p: self.s_lt(p, 0))[1]
                zero = S.mk("const", ty, 0)
                return self.ite(neg, self.lift(ty, [a], lambda p: self.mk_op(ty, "sub", (zero, p), ())), a)
            if rty == "i1":
                return self.lift_bool(vals, lambda *ps: S.var(("callb", f(*ps))))
            if rty.startswith("{"):
                fields = self.agg_arity(rty)
                base = self.lift(rty, vals, f)
                out = []
                for i, fty in enumerate(fields):
                    if fty == "i1":
                        out.append(self.lift_bool([base], lambda p, i=i: S.var(("field", p, i))))
                    else:
                        out.append(self.lift(fty, [base], lambda p, i=i, fty=fty: self.mk_op(fty, "extractvalue:%d" % i, (p,), ())))
                return ("t", tuple(out))
            return self.lift(rty, vals, f)
        if rhs.startswith("getelementptr "):
            toks = [t for t in E1.RE_TOKEN.findall(rhs) if t not in ("inbounds", "nuw", "nusw", "nsw")]
            ops = [t for t in toks if t[0] == "%"]
            if len(ops) != 1:
                raise Unsupported("gep with variable index")
            shape = " ".join("$" if t[0] == "%" else t for t in toks)
            return self.lift("ptr", [self.val(ops[0], "ptr", env)], lambda q: S.mk("gep", "ptr", shape, q))
        raise Unsupported("instruction " + rhs.split(" ", 1)[0])

    def inlinable(self, callee):
        callee = callee.strip('"')
        f = self.mod.funcs.get(callee)
        return f is not None and not f.is_decl and self.depth < 5 and callee not in self.stack

    def call_inline(self, mc, env):
        """-> (panic guard, returned value) of a call to a function defined in this module, by evaluating its body
        with the argument values bound to its parameters"""
        _rty, callee, args = mc.groups()
        callee = callee.strip('"')
        vals = []
        for a in E1._split_top(args):
            a = a.strip()
            if not a:
                continue
            ty, tok = a.rsplit(" ", 1)
            ty = ty.strip()
            if ty == "ptr" and tok[0] == "%" and self.sret_offset(tok, env) is not None:
                raise Unsupported("sret pointer passed on")
            vals.append(self.val(tok, ty, env))
        sub = Term(self.mod, callee, self.S, self.depth + 1, self.stack)
        sub.flags = self.flags
        if re.search(r'\(\s*ptr[^,)]*\bsret\(', sub.mod_head):
            raise Unsupported("callee returns through sret")
        if len(sub.arg_ty) != len(vals):
            raise Unsupported("call arity")
        for name, (i, _aty) in sub.arg_ty.items():
            sub.bind[name] = vals[i]
        sub.sret = None
        sub.paths = self.paths
        pn, r = sub.block(sub.c.order[0], None, {}, {})
        self.paths = sub.paths
        if r[0] == "bot":
            r = UNDEF
        return pn, r

    def _b(self, v):
        if v[0] == "b":
            return v[1]
        if v[0] == "u":
            return 0
        raise Unsupported("boolean expected, found " + v[0])

    # ---- control flow ---------------------------------------------------------------
    # a path result is (panic guard, value): the inputs on which the function diverges into a panic call, and
    # the returned value (with the sret stores) elsewhere
    def run(self):
        self.sret = None
        head = self.mod_head
        m = re.search(r'\(\s*ptr[^,)]*\bsret\(', head)
        if m:
            self.sret = 0
        pn, r = self.block(self.c.order[0], None, {}, {})
        if r[0] == "bot" and pn == 0:
            raise Unsupported("no returning path")
        return ("t", (("b", pn), r if r[0] != "bot" else UNDEF))

    def ite_r(self, c, x, y):
        S = self.S
        return (S.b_ite(c, x[0], y[0]), self.ite(c, x[1], y[1]))

    def sret_offset(self, tok, env):
        """byte offset of a pointer into the sret slot, None if it is not based on it"""
        if self.sret is None:
            return None
        if tok in self.arg_ty:
            return 0 if self.arg_ty[tok][0] == self.sret else None
        d = self.c.defs.get(tok)
        if d is None:
            return None
        rhs = _strip(d[1])
        m = re.match(r'^getelementptr (?:nuw |nsw )*i8, ptr (%"[^"]+"|%[\w.$-]+), i(?:32|64) (\d+)$', rhs)
        if m:
            base = self.sret_offset(m.group(1), env)
            return None if base is None else base + int(m.group(2))
        if rhs.startswith("getelementptr ") or rhs.startswith("phi ") or rhs.startswith("select "):
            ops = re.findall(r'(%"[^"]+"|%[\w.$-]+)', rhs)
            for o in ops:
                if o in self.arg_ty and self.arg_ty[o][0] == self.sret:
                    raise Unsupported("sret pointer arithmetic")
        return None

    def block(self, b, pred, env, mem):
        self.paths += 1
        if self.paths > MAX_PATHS:
            raise Unsupported("too many paths")
        if b not in self.c.blocks:
            raise Unsupported("unknown block " + b)
        if self.phis.get(b):
            new = {}
            for name, rest in self.phis[b]:
                ty = rest[:rest.index("[")].strip()
                got = None
                for val, blk in RE_PHI_IN.findall(rest):
                    if blk[1:].strip('"') == pred:
                        got = self.val(val.strip(), ty, env)
                        break
                if got is None:
                    raise Unsupported("phi without incoming value for " + str(pred))
                new[name] = got
            env = dict(env)
            env.update(new)
        ins = self.c.blocks[b]
        diverges = False
        pn_calls = [0]

        def fin(r):
            return (self.S.b_or(pn_calls[0], r[0]), r[1]) if pn_calls[0] else r
        for s in ins[:-1]:
            rs = _strip(s)
            m = re.match(r'^(%"[^"]+"|%[\w.$-]+) = (.*)$', rs)
            if m:
                kw = m.group(2).split(" ", 1)[0]
                if kw in ("call", "tail", "notail", "musttail"):
                    mc = RE_CALL.match(m.group(2))
                    if mc and not mc.group(2).startswith(E1.PURE_CALLS + E1.IGNORED_CALLS) and self.inlinable(mc.group(2)):
                        # a function of this module that LLVM left out of line: evaluated in place, so that the
                        # comparison does not depend on the inliner's decisions
                        pnc, v = self.call_inline(mc, env)
                        env = dict(env)
                        env[m.group(1)] = v
                        pn_calls[0] = self.S.b_or(pn_calls[0], pnc)
                        continue
                if kw == "load":
                    ml = RE_LOAD.match(m.group(2))
                    if ml and ml.group(2)[0] == "%" and self.sret_offset(ml.group(2), env) is not None:
                        raise Unsupported("load from the sret slot")
                if kw in PURE_OPS:
                    continue                              # pure values are evaluated on demand
                if kw in ("call", "tail", "notail", "musttail"):
                    mc = RE_CALL.match(m.group(2))
                    if mc and mc.group(2).startswith(E1.PURE_CALLS + E1.IGNORED_CALLS):
                        continue
                raise Unsupported("impure instruction: " + kw)
            if rs.startswith(("call ", "tail call ")):
                mc = RE_CALL.match(rs)
                if mc and mc.group(2).startswith(E1.IGNORED_CALLS):
                    continue
                # any other call in statement position is accepted only as the divergence of a block that ends in
                # `unreachable` (a call to a noreturn panic function); checked at the terminator
                diverges = True
                continue
            ms = re.match(r'^store (.+?) ' + VAL + r', ptr (%"[^"]+"|%[\w.$-]+)$', rs)
            if ms:
                ty, v, ptr = ms.groups()
                off = self.sret_offset(ptr, env)
                if off is None:
                    raise Unsupported("store outside the sret slot")
                ty = ty.strip()
                nbytes = (_width(ty) + 7) // 8
                for (o2, n2) in list(mem):
                    if (o2, n2) != (off, nbytes) and o2 < off + nbytes and off < o2 + n2:
                        raise Unsupported("overlapping sret stores")
                mem = dict(mem)
                mem[(off, nbytes)] = self.val(v, ty, env)
                continue
            raise Unsupported("side effect: " + rs.split(" ", 1)[0])
        term = _strip(ins[-1]) if ins else "unreachable"
        if term == "unreachable":
            return fin((1 if diverges else 0, ("bot",)))
        if diverges:
            raise Unsupported("call to a diverging function that returns")
        if term == "ret void":
            return fin((0, ("m", tuple(sorted(mem.items())))))
        if term.startswith("ret "):
            ty, tok = term[4:].rsplit(" ", 1)
            v = self.val(tok, ty.strip(), env)
            if mem:
                return fin((0, ("t", (v, ("m", tuple(sorted(mem.items())))))))
            return fin((0, v))
        m = re.match(r'^br label (%"[^"]+"|%[\w.$-]+)$', term)
        if m:
            return fin(self.block(m.group(1)[1:].strip('"'), b, env, mem))
        m = re.match(r'^br i1 ' + VAL + r', label (%"[^"]+"|%[\w.$-]+), label (%"[^"]+"|%[\w.$-]+)$', term)
        if m:
            c = self._b(self.val(m.group(1), "i1", env))
            t, f = m.group(2)[1:].strip('"'), m.group(3)[1:].strip('"')
            if c == 1:
                return fin(self.block(t, b, env, mem))
            if c == 0:
                return fin(self.block(f, b, env, mem))
            x = self.block(t, b, dict(env), mem)
            y = self.block(f, b, dict(env), mem)
            return fin(self.ite_r(c, x, y))
        if term.startswith("switch "):
            m = re.match(r'^switch (i\d+) ' + VAL + r', label (%"[^"]+"|%[\w.$-]+) \[(.*)\]$', term)
            if not m:
                raise Unsupported("switch form")
            ty, v, dflt, body = m.groups()
            vv = self.val(v, ty, env)
            r = self.block(dflt[1:].strip('"'), b, dict(env), mem)
            arms = re.findall(r'(i\d+) (-?\d+), label (%"[^"]+"|%[\w.$-]+)', body)
            for (_t, cst, lab) in reversed(arms):
                cv = self.const(ty, cst)
                c = self.lift_bool([vv, cv], lambda p, q: self.icmp("eq", ty, p, q))[1]
                if c == 0:
                    continue
                x = self.block(lab[1:].strip('"'), b, dict(env), mem)
                r = self.ite_r(c, x, r)
            return fin(r)
        raise Unsupported("terminator " + term.split(" ", 1)[0])


def finalise(S, v, K):
    """restrict every guard to the consistent atom assignments and drop the implicit last guard"""
    if v[0] == "b":
        return ("b", S.b_and(v[1], K))
    if v[0] == "t":
        return ("t", tuple(finalise(S, x, K) for x in v[1]))
    if v[0] == "m":
        return ("m", tuple((k, finalise(S, x, K)) for k, x in v[1]))
    if v[0] == "v":
        items = [(t, S.b_and(g, K)) for t, g in v[2]]
        items = [(t, g) for t, g in items if g != 0]
        if len(items) <= 1:
            return ("v", v[1], tuple(t for t, _g in items))
        items.sort()
        return ("v", v[1], tuple(items[:-1]) + ((items[-1][0], None),))
    return v


def same(S, x, y, K):
    """equality of two results on the consistent atom assignments K; case lists are compared where both are
    specified (an unspecified region stems from an undef arm: the payload of a None, padding)"""
    if x[0] != y[0]:
        return False
    if x[0] == "b":
        return S.b_and(x[1], K) == S.b_and(y[1], K)
    if x[0] == "t":
        return len(x[1]) == len(y[1]) and all(same(S, u, v, K) for u, v in zip(x[1], y[1]))
    if x[0] == "m":
        return [k for k, _ in x[1]] == [k for k, _ in y[1]] and all(same(S, u, v, K) for (_k, u), (_k2, v) in zip(x[1], y[1]))
    if x[0] == "v":
        if x[1] != y[1]:
            return False
        da = db = 0
        for _t, g in x[2]:
            da = S.b_or(da, g)
        for _t, g in y[2]:
            db = S.b_or(db, g)
        D = S.b_and(S.b_and(da, db), K)
        if D == 0:
            return False
        ga, gb = {}, {}
        for t, g in x[2]:
            ga[t] = S.b_or(ga.get(t, 0), S.b_and(g, D))
        for t, g in y[2]:
            gb[t] = S.b_or(gb.get(t, 0), S.b_and(g, D))
        ga = {t: g for t, g in ga.items() if g != 0}
        gb = {t: g for t, g in gb.items() if g != 0}
        return ga == gb
    return x == y


def compare(mod, a, b):
    """-> True (equal), False (different forms) ; raises Unsupported"""
    S = Store()
    ra = Term(mod, a, S).run()
    rb = Term(mod, b, S).run()
    K = S.domain()
    return same(S, ra, rb, K)


# ---- developer aid: readable rendering of a canonical result -----------------------------------
def show_term(S, t, depth=0):
    n = S.node[t]
    if n[0] == "const":
        return "%s:%s" % (n[2], n[1])
    if n[0] == "arg":
        return "arg%d" % n[2]
    if n[0] == "load":
        return "load %s(%s)" % (n[1], show_term(S, n[2]))
    if n[0] == "op":
        return "%s.%s(%s)" % (n[2], n[1], ", ".join(show_term(S, x) for x in n[3]))
    if n[0] == "call":
        return "%s(%s)" % (n[2], ", ".join(show_term(S, x) for x in n[3]))
    if n[0] == "gep":
        return "gep<%s>(%s)" % (n[2], show_term(S, n[3]))
    return repr(n)


def show_bdd(S, b):
    if b is None:
        return "otherwise"
    if b < 2:
        return "true" if b else "false"
    outs = []

    def walk(n, path):
        if n == 0:
            return
        if n == 1:
            outs.append(" & ".join(path) or "true")
            return
        v, lo, hi = S.bdd[n]
        key = S.var_atom[v]
        if key[0] == "thr":
            nm = " + ".join("%s*S(%s)" % (x, show_term(S, t)) if x != 1 else "S(%s)" % show_term(S, t) for t, x in key[1])
            pos, neg = "%s < %d" % (nm, key[2]), "%s >= %d" % (nm, key[2])
        else:
            pos, neg = str(key), "!" + str(key)
        walk(hi, path + [pos])
        walk(lo, path + [neg])
    walk(b, [])
    return " | ".join("(" + o + ")" for o in outs[:12]) + (" ..." if len(outs) > 12 else "")


def show(S, v):
    if v[0] == "b":
        return show_bdd(S, v[1])
    if v[0] == "t":
        return "(" + ", ".join(show(S, x) for x in v[1]) + ")"
    if v[0] == "v":
        if len(v[2]) == 1 and not isinstance(v[2][0], tuple):
            return show_term(S, v[2][0])
        return "{" + "; ".join("%s if %s" % (show_term(S, t), show_bdd(S, g)) for t, g in v[2]) + "}"
    return str(v)


def explain(mod, a, b):
    S = Store()
    ra = Term(mod, a, S).run()
    rb = Term(mod, b, S).run()
    K = S.domain()
    return show(S, finalise(S, ra, K)), show(S, finalise(S, rb, K))
