"""API model of the current /repo tree, derived from rustdoc-JSON (nightly).

Nothing here is a frozen list: the structs, their inherent methods, trait
impls, the `Wrapping` wrapper and the free functions of `transcendental` are
enumerated from the JSON of the tree being checked."""
import os
import re

from . import common as C

FIXED_RE = re.compile(r"^Fixed([IU])(8|16|32|64|128)$")
INT_TYPES = ["i8", "i16", "i32", "i64", "i128", "isize",
             "u8", "u16", "u32", "u64", "u128", "usize"]


def rustdoc_json():
    """Builds (or reuses) rustdoc JSON for the current tree."""
    hd = C.hash_dir()
    out = os.path.join(hd, "rustdoc.json")
    stamp = C.source_hash()
    if C.stamp_ok(out, stamp):
        return out
    with C.Lock("doc"):
        if C.stamp_ok(out, stamp):
            return out
        tdir = os.path.join(C.WORK, "target-doc")
        C.log("[api] building rustdoc JSON ...")
        C.run(["cargo", "+nightly", "rustdoc", "--offline", "--lib", "--",
               "-Zunstable-options", "--output-format", "json",
               "--document-private-items", "-Awarnings"],
              cwd=C.REPO, env={"CARGO_TARGET_DIR": tdir})
        src = os.path.join(tdir, "doc", "substrate_fixed.json")
        os.replace(src, out)
        C.write_stamp(out, stamp)
    return out


def ty_str(t, subst=None):
    """Render a rustdoc-JSON type as Rust source text. `subst` maps generic
    parameter names (and 'Self') to replacement text."""
    subst = subst or {}
    if t is None:
        return "()"
    (k, v), = t.items()
    if k == "primitive":
        return v
    if k == "generic":
        return subst.get(v, v)
    if k == "resolved_path":
        path = v["path"].replace("crate::", "substrate_fixed::")
        base = path.split("::")[-1]
        a = v.get("args")
        args = []
        if a and "angle_bracketed" in a:
            for x in a["angle_bracketed"]["args"]:
                if "type" in x:
                    args.append(ty_str(x["type"], subst))
                elif "lifetime" in x:
                    args.append(x["lifetime"])
                elif "const" in x:
                    args.append(str(x["const"].get("expr", "_")))
        key = base + ("<" + ",".join(args) + ">" if args else "")
        if key in subst:
            return subst[key]
        if base in subst and not args:
            return subst[base]
        return PATHS.get(base, path) + ("<" + ", ".join(args) + ">" if args else "")
    if k == "borrowed_ref":
        lt = (v.get("lifetime") + " ") if v.get("lifetime") else ""
        return "&" + lt + ("mut " if v["is_mutable"] else "") + ty_str(v["type"], subst)
    if k == "tuple":
        if len(v) == 1:
            return "(" + ty_str(v[0], subst) + ",)"
        return "(" + ", ".join(ty_str(x, subst) for x in v) + ")"
    if k == "slice":
        return "[" + ty_str(v, subst) + "]"
    if k == "array":
        return "[" + ty_str(v["type"], subst) + "; " + v["len"] + "]"
    if k == "qualified_path":
        tr = v["trait"]["path"] if v.get("trait") else None
        st = ty_str(v["self_type"], subst)
        if tr:
            return "<" + st + " as " + PATHS.get(tr.split("::")[-1], tr) + ">::" + v["name"]
        return st + "::" + v["name"]
    if k == "impl_trait":
        return "impl " + " + ".join(b["trait_bound"]["trait"]["path"] for b in v if "trait_bound" in b)
    if k == "raw_pointer":
        return "*" + ("mut " if v["is_mutable"] else "const ") + ty_str(v["type"], subst)
    return "/*" + k + "*/"


# fully-qualified spellings usable from an external crate
PATHS = {
    "Option": "core::option::Option",
    "Result": "core::result::Result",
    "Ordering": "core::cmp::Ordering",
    "ParseFixedError": "substrate_fixed::ParseFixedError",
    "Wrapping": "substrate_fixed::Wrapping",
    "Formatter": "core::fmt::Formatter<'_>",
    "FmtResult": "core::fmt::Result",
    "Fixed": "substrate_fixed::traits::Fixed",
    "FixedSigned": "substrate_fixed::traits::FixedSigned",
    "FixedUnsigned": "substrate_fixed::traits::FixedUnsigned",
    "ToFixed": "substrate_fixed::traits::ToFixed",
    "FromFixed": "substrate_fixed::traits::FromFixed",
    "LossyFrom": "substrate_fixed::traits::LossyFrom",
    "LossyInto": "substrate_fixed::traits::LossyInto",
}
for _s in ("I", "U"):
    for _w in (8, 16, 32, 64, 128):
        PATHS["Fixed%s%d" % (_s, _w)] = "substrate_fixed::Fixed%s%d" % (_s, _w)


class Method:
    __slots__ = ("name", "generics", "inputs", "output", "public", "is_const",
                 "has_self", "self_kind", "raw")

    def __init__(self, item):
        fn = item["inner"]["function"]
        self.raw = fn
        self.name = item["name"]
        self.public = item["visibility"] == "public"
        self.generics = [g["name"] for g in fn["generics"]["params"]
                         if "type" in g["kind"]]
        self.inputs = fn["sig"]["inputs"]          # [(name, type)]
        self.output = fn["sig"]["output"]
        self.is_const = fn["header"]["is_const"]
        self.has_self = bool(self.inputs) and self.inputs[0][0] == "self"
        self.self_kind = None
        if self.has_self:
            t = self.inputs[0][1]
            if "borrowed_ref" in t:
                self.self_kind = "&mut" if t["borrowed_ref"]["is_mutable"] else "&"
            else:
                self.self_kind = "val"

    def out_str(self, subst=None):
        return ty_str(self.output, subst)

    def generic_bounds(self):
        """{param: [trait names]} from inline bounds and where clauses."""
        out = {}
        for g in self.raw["generics"]["params"]:
            if "type" in g["kind"]:
                out[g["name"]] = [b["trait_bound"]["trait"]["path"].split("::")[-1]
                                  for b in g["kind"]["type"]["bounds"] if "trait_bound" in b]
        for p in self.raw["generics"]["where_predicates"]:
            bp = p.get("bound_predicate")
            if bp and "generic" in bp["type"]:
                out.setdefault(bp["type"]["generic"], []).extend(
                    b["trait_bound"]["trait"]["path"].split("::")[-1]
                    for b in bp["bounds"] if "trait_bound" in b)
        return out


class Impl:
    __slots__ = ("trait", "trait_args", "for_ty", "methods", "attrs", "blanket",
                 "synthetic", "raw", "where_preds", "generics", "assoc_types")

    def __init__(self, idx, item):
        im = item["inner"]["impl"]
        self.raw = im
        self.attrs = item.get("attrs", [])
        self.blanket = im.get("blanket_impl") is not None
        self.synthetic = im.get("is_synthetic", False)
        self.for_ty = im["for"]
        t = im["trait"]
        self.trait = t["path"].split("::")[-1] if t else None
        self.trait_args = []
        if t and t.get("args") and "angle_bracketed" in t["args"]:
            self.trait_args = [x["type"] for x in t["args"]["angle_bracketed"]["args"] if "type" in x]
        self.generics = [g["name"] for g in im["generics"]["params"] if "type" in g["kind"]]
        self.where_preds = im["generics"]["where_predicates"]
        self.methods = []
        self.assoc_types = {}
        for it in im["items"]:
            f = idx.get(str(it))
            if f is None:
                continue
            if "function" in f["inner"]:
                self.methods.append(Method(f))
            elif "assoc_type" in f["inner"]:
                self.assoc_types[f["name"]] = f["inner"]["assoc_type"].get("type")


class Api:
    def __init__(self, path=None):
        path = path or rustdoc_json()
        d = C.load_json(path)
        self.idx = idx = d["index"]
        self.paths = d["paths"]
        self.format_version = d["format_version"]
        self.structs = {}       # name -> item
        self.impls = {}         # struct name -> [Impl]
        self.modules = {}
        self.functions = {}     # module path -> {name: Method}
        root = idx[str(d["root"])]
        # walk modules of the crate to find items by path
        self.aliases = {}       # alias name -> (struct name, frac)
        self.traits = {}
        self._walk(root, ["substrate_fixed"])
        for name, item in self.structs.items():
            self.impls[name] = [Impl(idx, idx[str(i)]) for i in item["inner"]["struct"]["impls"]
                                if str(i) in idx]

    def _walk(self, mod, path):
        idx = self.idx
        for cid in mod["inner"]["module"]["items"]:
            it = idx.get(str(cid))
            if it is None:
                continue
            inner = it["inner"]
            if "module" in inner:
                self._walk(it, path + [it["name"]])
            elif "struct" in inner:
                self.structs[it["name"]] = it
            elif "function" in inner:
                self.functions.setdefault("::".join(path), {})[it["name"]] = Method(it)
            elif "type_alias" in inner:
                m = re.match(r"^([IU])(\d+)F(\d+)$", it["name"] or "")
                if m and path[-1] == "types":
                    t = inner["type_alias"]["type"]
                    if "resolved_path" in t:
                        sname = t["resolved_path"]["path"].split("::")[-1]
                        self.aliases[it["name"]] = (sname, int(m.group(3)))
            elif "trait" in inner:
                self.traits[it["name"]] = it
            elif "use" in inner:
                # re-exports (e.g. `pub use wrapping::Wrapping`)
                tgt = inner["use"].get("id")
                t = idx.get(str(tgt)) if tgt is not None else None
                if t is not None and "struct" in t["inner"]:
                    self.structs[t["name"]] = t

    # -- helpers -----------------------------------------------------------
    def implementors(self, trait):
        """textual Self types (primitives and Fixed struct names) of the impls
        of a crate trait, e.g. ToFixed -> {'i8', ..., 'bool', 'f32', 'FixedI8', ...}"""
        t = self.traits.get(trait)
        out = set()
        if t is None:
            return out
        for iid in t["inner"]["trait"].get("implementations", []):
            it = self.idx.get(str(iid))
            if it is None:
                continue
            f = it["inner"]["impl"]["for"]
            if "primitive" in f:
                out.add(f["primitive"])
            elif "resolved_path" in f:
                out.add(f["resolved_path"]["path"].split("::")[-1])
        return out

    def fixed_structs(self):
        return sorted(n for n in self.structs if FIXED_RE.match(n))

    def inherent_methods(self, struct):
        out = []
        for im in self.impls[struct]:
            if im.trait is None:
                out.extend(im.methods)
        return out

    def trait_impls(self, struct, trait=None):
        return [im for im in self.impls[struct]
                if im.trait is not None and (trait is None or im.trait == trait)]

    def struct_fields(self, struct):
        it = self.structs[struct]
        kind = it["inner"]["struct"]["kind"]
        out = []
        if "plain" in kind:
            for fid in kind["plain"]["fields"]:
                f = self.idx[str(fid)]
                out.append((f["name"], f["inner"]["struct_field"], f))
        elif "tuple" in kind:
            for n, fid in enumerate(kind["tuple"]):
                if fid is None:
                    continue
                f = self.idx[str(fid)]
                out.append((str(n), f["inner"]["struct_field"], f))
        return out


class Layout:
    """One of the 506 aliases."""
    __slots__ = ("name", "signed", "width", "frac")

    def __init__(self, name):
        m = re.match(r"^([IU])(\d+)F(\d+)$", name)
        self.name = name
        self.signed = m.group(1) == "I"
        i, f = int(m.group(2)), int(m.group(3))
        self.frac = f
        self.width = i + f

    @property
    def int_bits(self):
        return self.width - self.frac

    @property
    def struct(self):
        return "Fixed%s%d" % ("I" if self.signed else "U", self.width)

    @property
    def inner(self):
        return "%s%d" % ("i" if self.signed else "u", self.width)

    @property
    def uinner(self):
        return "u%d" % self.width

    @property
    def path(self):
        return "substrate_fixed::types::" + self.name

    def __repr__(self):
        return self.name


def layout_name(signed, width, frac):
    return "%s%dF%d" % ("I" if signed else "U", width - frac, frac)


FAMILIES = [(s, w) for s in (True, False) for w in (8, 16, 32, 64, 128)]


def all_layouts():
    return [Layout(layout_name(s, w, f)) for (s, w) in FAMILIES for f in range(w + 1)]


def quick_layouts():
    out = []
    for (s, w) in FAMILIES:
        for f in sorted({0, 1, w // 2, w - 1, w}):
            out.append(Layout(layout_name(s, w, f)))
    return out


def thorough_sample_layouts(seed=0):
    import random
    rnd = random.Random(seed)
    out = []
    for (s, w) in FAMILIES:
        fs = {0, 1, 2, 3, w // 2 - 1, w // 2, w // 2 + 1, w - 3, w - 2, w - 1, w}
        fs = {f for f in fs if 0 <= f <= w}
        rest = [f for f in range(w + 1) if f not in fs]
        rnd.shuffle(rest)
        fs.update(rest[:2])
        for f in sorted(fs):
            out.append(Layout(layout_name(s, w, f)))
    return out
