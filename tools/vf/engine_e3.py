"""Engine E, third normal form ("limb algebra") for wide multiplication.

The 128-bit product is computed from four 64-bit limbs with explicit carries; no Rust type can state its
specification ((a * b) >> F in a 256-bit integer), so the specification lives here, as a term: the value is the
bit slice [F, F+128) of the exact integer product P = a * b of the two operands (read as signed or unsigned
integers), the flag is "P >> F does not fit the type".  The compiled body of the library function is rewritten into
the same vocabulary -- nothing is executed and no solver is called:

* every iN value v is described by a polynomial X over *integer atoms* with  v == X (mod 2^N): the operands, products
  of two atoms, `fl(R, k)` = floor(R / 2^k) for a polynomial R, and *wrap atoms* (the carry lost by an addition);
  add / sub / mul / shl are ring operations; lshr / ashr / masks / funnel shifts introduce floors of the exact
  unsigned or signed reading (exact by the instruction's no-wrap flags or by interval bounds, else through a wrap
  atom);
* floors are kept in a canonical form: fl(2^k Q + R, k) = Q + fl(R, k) for an integer-valued Q (every coefficient is
  reduced into [0, 2^k)), so the limb products and the carries of the schoolbook method cancel as polynomials;
* `select`s stay symbolic; at the end the few wrap atoms (each ranges over <= 3 values) are enumerated, branches that
  contradict the function's own non-panicking path conditions are dropped by interval bounds, and in every remaining
  case the result polynomial must equal the specification's modulo 2^N coefficient by coefficient;
* a comparison of a polynomial containing one floor with coefficient +-1 is rewritten without the floor
  (Z + fl(R, k) < 0  <=>  2^k Z + R < 0), so overflow tests on the high limb become thresholds on P itself.

Anything outside this fragment raises Unsupported (verdict: undecided, nothing claimed)."""
import re
from itertools import product as _cartesian

from . import engine_e as E1
from .engine_e2 import Unsupported, _strip, _width, RE_BIN, RE_ICMP, RE_CAST, RE_CALL, RE_EXTV, RE_FREEZE, VAL

MAX_CASES = 4096


# ---- polynomials: {monomial (sorted tuple of atom ids): integer coefficient}; () is the constant monomial -----
def padd(p, q, s=1):
    r = dict(p)
    for m, c in q.items():
        v = r.get(m, 0) + s * c
        if v:
            r[m] = v
        else:
            r.pop(m, None)
    return r


def pscale(p, k):
    return {m: c * k for m, c in p.items()} if k else {}


def pmul(p, q):
    r = {}
    for m1, c1 in p.items():
        for m2, c2 in q.items():
            m = tuple(sorted(m1 + m2))
            if len(m) > 2:
                raise Unsupported("product of degree > 2")
            v = r.get(m, 0) + c1 * c2
            if v:
                r[m] = v
            else:
                r.pop(m, None)
    return r


def pconst(c):
    return {(): c} if c else {}


def pkey(p):
    return tuple(sorted(p.items()))


def is_const(p):
    return not p or set(p) == {()}


class Val:
    __slots__ = ("w", "X", "lo", "hi", "eU", "eS")

    def __init__(self, w, X, lo, hi, eU=False, eS=False):
        self.w, self.X, self.lo, self.hi = w, X, lo, hi
        self.eU = eU or (0 <= lo and hi < (1 << w))
        self.eS = eS or (-(1 << (w - 1)) <= lo and hi < (1 << (w - 1)))


class Alg:
    def __init__(self):
        self.atoms = []          # id -> {"key", "lo", "hi", ...}
        self.ids = {}
        self.known = {}          # pkey -> (poly, lo, hi): bounds established at operand level

    def atom(self, key, lo, hi, **extra):
        i = self.ids.get(key)
        if i is None:
            i = self.ids[key] = len(self.atoms)
            d = {"key": key, "lo": lo, "hi": hi}
            d.update(extra)
            self.atoms.append(d)
        else:
            d = self.atoms[i]
            d["lo"], d["hi"] = max(d["lo"], lo), min(d["hi"], hi)
        return i

    def note(self, p, lo, hi):
        if is_const(p):
            return
        k = pkey(p)
        old = self.known.get(k)
        if old is not None:
            lo, hi = max(lo, old[1]), min(hi, old[2])
        self.known[k] = (p, lo, hi)

    # -- bounds -------------------------------------------------------------------------------------
    def subst(self, p, sigma):
        if not sigma:
            return p
        r = {}
        for m, c in p.items():
            rest = []
            for a in m:
                if a in sigma:
                    c *= sigma[a]
                else:
                    rest.append(a)
            if c:
                mm = tuple(rest)
                v = r.get(mm, 0) + c
                if v:
                    r[mm] = v
                else:
                    r.pop(mm, None)
        return r

    def resub(self, p, sigma, _memo=None):
        """p with the wrap atoms replaced by their values, floors rebuilt (their arguments may simplify: the
        constants of a carry and of the select that consumed it cancel only now)"""
        if not sigma:
            return p
        memo = {} if _memo is None else _memo
        out = {}
        for m, c in p.items():
            term = {(): c}
            for a in m:
                if a in sigma:
                    f = pconst(sigma[a])
                elif self.atoms[a]["key"][0] == "fl":
                    if a not in memo:
                        at = self.atoms[a]
                        memo[a] = self.fl(self.resub(at["R"], sigma, memo), at["k"])
                    f = memo[a]
                else:
                    f = {(a,): 1}
                term = pmul(term, f)
            out = padd(out, term)
        return out

    def _interval(self, p):
        lo = hi = 0
        for m, c in p.items():
            l, h = 1, 1
            if len(m) == 2 and m[0] == m[1]:
                a = self.atoms[m[0]]
                cs = (a["lo"] * a["lo"], a["hi"] * a["hi"])
                l, h = (0 if a["lo"] <= 0 <= a["hi"] else min(cs)), max(cs)
            else:
                for a in m:
                    al, ah = self.atoms[a]["lo"], self.atoms[a]["hi"]
                    cs = (l * al, l * ah, h * al, h * ah)
                    l, h = min(cs), max(cs)
            if c >= 0:
                lo, hi = lo + c * l, hi + c * h
            else:
                lo, hi = lo + c * h, hi + c * l
        return lo, hi

    def bound(self, p, sigma=None):
        """integer interval containing the value of p, given the values sigma of some wrap atoms"""
        sigma = sigma or {}
        p = self.subst(p, sigma)
        if is_const(p):
            c = p.get((), 0)
            return c, c
        lo, hi = self._interval(p)
        cands = list(self.known.values())
        # a wrap atom with a known value confines its own argument
        for z, v in sigma.items():
            a = self.atoms[z]
            if a["key"][0] == "w":
                E, w, off = a["E"], a["w"], a["off"]
                cands.append((E, max(a["elo"], (v << w) - off), min(a["ehi"], ((v + 1) << w) - off - 1)))
        for (R, rl, rh) in cands:
            Rs = self.subst(R, sigma)
            if is_const(Rs):
                continue
            d = padd(p, Rs, -1)
            if is_const(d):
                c = d.get((), 0)
                lo, hi = max(lo, rl + c), min(hi, rh + c)
                continue
            d = padd(p, Rs, 1)
            if is_const(d):
                c = d.get((), 0)
                lo, hi = max(lo, c - rh), min(hi, c - rl)
        return lo, hi

    # -- floors ---------------------------------------------------------------------------------------
    def fl(self, E, k, lo=None, hi=None):
        """floor(E / 2^k) as a polynomial, canonical: multiples of 2^k are pulled out"""
        if k == 0:
            return dict(E)
        Q, R = {}, {}
        for m, c in E.items():
            q, r = divmod(c, 1 << k)
            if q:
                Q[m] = q
            if r:
                R[m] = r
        if is_const(R):
            return Q
        # a common power of two of the non-constant coefficients divides out: fl(2^g R' + c, k) = fl(R', k - g), 0 <= c < 2^g
        g = min(((c & -c).bit_length() - 1) for m, c in R.items() if m != ())
        g = min(g, k)
        if g > 0:
            R2 = {m: (c >> g) for m, c in R.items()}
            R2 = {m: c for m, c in R2.items() if c}
            return padd(Q, self.fl(R2, k - g))
        rl, rh = self.bound(R)
        if lo is not None:
            # bounds of E carry over to R = E - 2^k Q only when Q is constant
            if is_const(Q):
                q0 = Q.get((), 0)
                rl, rh = max(rl, lo - (q0 << k)), min(rh, hi - (q0 << k))
        if 0 <= rl and rh < (1 << k):
            return Q
        # nested floors: fl(Z + fl(R', j), k) = fl(2^j Z + R', j + k) for an integer-valued Z
        for m, c in R.items():
            if c == 1 and len(m) == 1 and self.atoms[m[0]]["key"][0] == "fl":
                inner = self.atoms[m[0]]
                Z = dict(R)
                del Z[m]
                return padd(Q, self.fl(padd(pscale(Z, 1 << inner["k"]), inner["R"]), inner["k"] + k))
        # an argument confined to [-2^j, 2^j) with j < k has floor -1 or 0 for every divisor 2^j .. 2^k: use the smallest
        if is_const(Q):
            j = max(rh.bit_length(), (-rl - 1).bit_length() if rl < 0 else 0)
            if j < k:
                return padd(Q, self.fl(R, j))          # canonicalise again for the smaller divisor
        a = self.atom(("fl", pkey(R), k), rl >> k, rh >> k, R=R, k=k)
        return padd(Q, {(a,): 1})

    def wrap(self, E, w, off, lo, hi):
        """floor((E + off) / 2^w) for an expression with operand-level bounds [lo, hi]: a constant or a wrap atom"""
        zl, zh = (lo + off) >> w, (hi + off) >> w
        if zl == zh:
            return pconst(zl)
        if zh - zl > 2:
            raise Unsupported("wrap atom with more than three values")
        a = self.atom(("w", pkey(E), w, off), zl, zh, E=E, w=w, off=off, elo=lo, ehi=hi)
        return {(a,): 1}

    # -- readings ---------------------------------------------------------------------------------------
    def U(self, v):
        if v.eU:
            return v.X, max(v.lo, 0), min(v.hi, (1 << v.w) - 1)
        if v.eS:
            # X in [-2^(w-1), 2^(w-1)): floor(X / 2^w) is -1 for negative X
            X = padd(v.X, pscale(self.fl(v.X, v.w, v.lo, v.hi), 1 << v.w), -1)
            self.note(X, 0, (1 << v.w) - 1)
            return X, 0, (1 << v.w) - 1
        z = self.wrap(v.X, v.w, 0, v.lo, v.hi)
        X = padd(v.X, pscale(z, 1 << v.w), -1)
        self.note(X, 0, (1 << v.w) - 1)
        return X, 0, (1 << v.w) - 1

    def S(self, v):
        h = 1 << (v.w - 1)
        if v.eS:
            return v.X, max(v.lo, -h), min(v.hi, h - 1)
        if v.eU:
            # X in [0, 2^w): floor(X / 2^(w-1)) is the top bit
            X = padd(v.X, pscale(self.fl(v.X, v.w - 1, v.lo, v.hi), 1 << v.w), -1)
            self.note(X, -h, h - 1)
            return X, -h, h - 1
        z = self.wrap(v.X, v.w, h, v.lo, v.hi)
        X = padd(v.X, pscale(z, 1 << v.w), -1)
        self.note(X, -h, h - 1)
        return X, -h, h - 1

    def val(self, w, X, lo, hi, eU=False, eS=False):
        v = Val(w, X, lo, hi, eU, eS)
        if v.eU:
            v.lo, v.hi = max(v.lo, 0), min(v.hi, (1 << w) - 1)
        if v.eS:
            v.lo, v.hi = max(v.lo, -(1 << (w - 1))), min(v.hi, (1 << (w - 1)) - 1)
        self.note(X, v.lo, v.hi)
        return v


# ---- conditions: ("lt0", poly) | ("not", c) | ("and", a, b) | ("or", a, b) | ("k", bool) -----------------------------
def c_not(c):
    if c[0] == "k":
        return ("k", not c[1])
    if c[0] == "not":
        return c[1]
    return ("not", c)


def c_and(a, b):
    if a[0] == "k":
        return b if a[1] else a
    if b[0] == "k":
        return a if b[1] else b
    return ("and", a, b)


def c_or(a, b):
    return c_not(c_and(c_not(a), c_not(b)))


class Interp:
    """evaluates one loop-free function whose only branches lead to a panic"""

    def __init__(self, mod, fname, signed_args):
        self.A = Alg()
        self.c = E1.Canon(mod, fname, {})
        self.head = mod.body(self.c.f)[0]
        self.signed = signed_args
        self.env = {}
        self.asserts = []
        self.stores = {}
        self.ret = None
        self.sret = None
        if re.search(r'\(\s*ptr[^,)]*\bsret\(', self.head):
            self.sret = 0
        self.args = {}
        for name, i in self.c.args.items():
            ty = self.c.arg_types[i].split()[0] if self.c.arg_types[i] else "?"
            self.args[name] = (i, ty)

    # -- lifting over selects ---------------------------------------------------------------------------------
    def lift(self, fn, *vs):
        for i, v in enumerate(vs):
            if isinstance(v, tuple) and v[0] == "sel":
                a = self.lift(fn, *(vs[:i] + (v[2],) + vs[i + 1:]))
                b = self.lift(fn, *(vs[:i] + (v[3],) + vs[i + 1:]))
                if isinstance(a, tuple) and a[0] == "cond":
                    return ("cond", c_or(c_and(v[1], a[1]), c_and(c_not(v[1]), b[1])))
                return ("sel", v[1], a, b)
        return fn(*vs)

    def const(self, ty, tok):
        if tok in ("undef", "poison"):
            raise Unsupported("undef operand")
        if ty == "i1":
            return ("cond", ("k", tok in ("true", "1", "-1")))
        w = _width(ty)
        c = int(tok)                       # as printed: negative literals stay negative (signed reading)
        if not -(1 << (w - 1)) <= c < (1 << w):
            c &= (1 << w) - 1
        return self.A.val(w, pconst(c), c, c)

    def get(self, tok, ty):
        if tok[0] != "%":
            return self.const(ty, tok)
        if tok in self.env:
            return self.env[tok]
        if tok in self.args:
            i, aty = self.args[tok]
            w = _width(aty)
            if self.signed:
                lo, hi = -(1 << (w - 1)), (1 << (w - 1)) - 1
            else:
                lo, hi = 0, (1 << w) - 1
            a = self.A.atom(("arg", i), lo, hi)
            v = self.A.val(w, {(a,): 1}, lo, hi)
            self.env[tok] = v
            return v
        d = self.c.defs.get(tok)
        if d is None:
            raise Unsupported("undefined value " + tok)
        rhs = _strip(d[1])
        if rhs.startswith("phi "):
            raise Unsupported("phi")
        v = self.env[tok] = self.instr(rhs)
        return v

    def cond_of(self, v):
        if isinstance(v, tuple) and v[0] == "cond":
            return v[1]
        raise Unsupported("boolean expected")

    # -- instructions -------------------------------------------------------------------------------------------
    def instr(self, rhs):
        A = self.A
        m = RE_BIN.match(rhs)
        if m:
            op, flags, ty, a, b = m.groups()
            flags = set(flags.split())
            va, vb = self.get(a, ty), self.get(b, ty)
            if ty == "i1":
                x, y = self.cond_of(va), self.cond_of(vb)
                if op == "and":
                    return ("cond", c_and(x, y))
                if op == "or":
                    return ("cond", c_or(x, y))
                if op == "xor":
                    return ("cond", c_or(c_and(x, c_not(y)), c_and(c_not(x), y)))
                raise Unsupported("i1 " + op)
            w = _width(ty)
            return self.lift(lambda p, q: self.binop(op, flags, w, p, q), va, vb)
        m = RE_ICMP.match(rhs)
        if m:
            _ss, pred, ty, a, b = m.groups()
            va, vb = self.get(a, ty), self.get(b, ty)
            return self.lift(lambda p, q: ("cond", self.icmp(pred, p, q)), va, vb)
        m = RE_CAST.match(rhs)
        if m:
            op, flags, t1, a, t2 = m.groups()
            va = self.get(a, t1)
            if t1 == "i1":
                one = 1 if op == "zext" else -1
                return ("sel", self.cond_of(va), A.val(_width(t2), pconst(one), one, one), A.val(_width(t2), {}, 0, 0))
            w2 = _width(t2)

            def cast(p):
                if op == "zext":
                    X, lo, hi = A.U(p)
                    return A.val(w2, X, lo, hi, eU=True)
                if op == "sext":
                    X, lo, hi = A.S(p)
                    return A.val(w2, X, lo, hi, eS=True)
                return A.val(w2, p.X, p.lo, p.hi)
            return self.lift(cast, va)
        if rhs.startswith("select "):
            parts = E1._split_top(rhs[len("select "):])
            ct, cv = parts[0].strip().rsplit(" ", 1)
            c = self.cond_of(self.get(cv, "i1"))
            t1, v1 = parts[1].strip().rsplit(" ", 1)
            t2, v2 = parts[2].strip().rsplit(" ", 1)
            x, y = self.get(v1, t1.strip()), self.get(v2, t2.strip())
            if c[0] == "k":
                return x if c[1] else y
            if isinstance(x, tuple) and x[0] == "cond":
                return ("cond", c_or(c_and(c, x[1]), c_and(c_not(c), self.cond_of(y))))
            return ("sel", c, x, y)
        m = RE_EXTV.match(rhs)
        if m:
            _aty, agg, idx = m.groups()
            base = self.get(agg, "{}")
            if isinstance(base, tuple) and base[0] == "agg":
                return base[1][int(idx)]
            raise Unsupported("extractvalue")
        m = RE_FREEZE.match(rhs)
        if m:
            return self.get(m.group(2), m.group(1).strip())
        m = RE_CALL.match(rhs)
        if m:
            _rty, callee, args = m.groups()
            ops = []
            for a in E1._split_top(args):
                ty, tok = a.strip().rsplit(" ", 1)
                ops.append((ty.strip(), tok))
            mo = re.match(r'^llvm\.fsh([lr])\.(i\d+)$', callee)
            if mo and ops[2][1].lstrip("-").isdigit():
                w = _width(mo.group(2))
                s = int(ops[2][1]) % w
                if mo.group(1) == "r":
                    s = (w - s) % w
                hi_, lo_ = self.get(ops[0][1], ops[0][0]), self.get(ops[1][1], ops[1][0])

                def fsh(h, l):
                    if s == 0:
                        return h
                    X, ulo, uhi = A.U(l)
                    low = A.fl(X, w - s, ulo, uhi)
                    # exact unsigned reading: the high operand contributes 2^s * (X mod 2^(w-s))
                    top = padd(pscale(h.X, 1 << s), pscale(A.fl(h.X, w - s), 1 << w), -1)
                    return A.val(w, padd(top, low), 0, (1 << w) - 1, eU=True)
                return self.lift(fsh, hi_, lo_)
            mo = re.match(r'^llvm\.([su])(add|sub)\.with\.overflow\.(i\d+)$', callee)
            if mo:
                sg, op, ty = mo.groups()
                w = _width(ty)
                va, vb = self.get(ops[0][1], ty), self.get(ops[1][1], ty)

                def wo(p, q):
                    rd = A.S if sg == "s" else A.U
                    Xa, al, ah = rd(p)
                    Xb, bl, bh = rd(q)
                    sgn = 1 if op == "add" else -1
                    E = padd(Xa, Xb, sgn)
                    lo = al + (bl if sgn > 0 else -bh)
                    hi = ah + (bh if sgn > 0 else -bl)
                    off = (1 << (w - 1)) if sg == "s" else 0
                    z = A.wrap(E, w, off, lo, hi)
                    ovf = c_or(("lt0", z), ("lt0", pscale(z, -1)))
                    return ("agg", (A.val(w, E, lo, hi), ("cond", ovf)))
                r = self.lift(wo, va, vb)
                if r[0] != "agg":
                    raise Unsupported("overflow intrinsic on a selected value")
                return r
            raise Unsupported("call to " + callee)
        raise Unsupported("instruction " + rhs.split(" ", 1)[0])

    def binop(self, op, flags, w, p, q):
        A = self.A
        if op in ("add", "sub", "mul", "xor") and (isinstance(p, tuple) or isinstance(q, tuple)):
            raise Unsupported("xor used as a value")
        nuw = "nuw" in flags and not isinstance(p, tuple) and p.eU and q.eU
        nsw = "nsw" in flags and not isinstance(p, tuple) and p.eS and q.eS
        if op in ("add", "sub"):
            s = 1 if op == "add" else -1
            X = padd(p.X, q.X, s)
            lo = p.lo + (q.lo if s > 0 else -q.hi)
            hi = p.hi + (q.hi if s > 0 else -q.lo)
            return A.val(w, X, lo, hi, eU=nuw, eS=nsw)
        if op == "mul":
            X = pmul(p.X, q.X)
            cs = (p.lo * q.lo, p.lo * q.hi, p.hi * q.lo, p.hi * q.hi)
            return A.val(w, X, min(cs), max(cs), eU=nuw, eS=nsw)
        if isinstance(q, tuple):
            raise Unsupported("xor used as a value")
        kq = q.X.get((), None) if is_const(q.X) else None
        if kq is None and is_const(q.X):
            kq = 0
        if op == "shl" and kq is not None and 0 <= kq < w:
            v = A.val(w, pscale(p.X, 1 << kq), p.lo << kq, p.hi << kq, eU=nuw, eS=nsw)
            if v.eU or v.eS or kq == 0:
                return v
            # exact unsigned reading of a shift that drops bits: 2^k * (X mod 2^(w-k))
            X = padd(pscale(p.X, 1 << kq), pscale(A.fl(p.X, w - kq), 1 << w), -1)
            return A.val(w, X, 0, (1 << w) - (1 << kq), eU=True)
        if op == "xor":
            return ("xor", p, q, w)
        if op == "lshr" and kq == w - 1 and isinstance(p, tuple) and p[0] == "xor":
            # the top bit of a ^ b: the signs differ
            x, y = self.is_neg(p[1]), self.is_neg(p[2])
            c = c_or(c_and(x, c_not(y)), c_and(c_not(x), y))
            return ("sel", c, A.val(w, pconst(1), 1, 1), A.val(w, {}, 0, 0))
        if isinstance(p, tuple) or isinstance(q, tuple):
            raise Unsupported("xor used as a value")
        if op == "lshr" and kq is not None and 0 <= kq < w:
            X, lo, hi = A.U(p)
            return A.val(w, A.fl(X, kq, lo, hi), lo >> kq, hi >> kq, eU=True)
        if op == "ashr" and kq is not None and 0 <= kq < w:
            X, lo, hi = A.S(p)
            return A.val(w, A.fl(X, kq, lo, hi), lo >> kq, hi >> kq, eS=True)
        if op == "and" and (kq is not None or is_const(p.X)):
            if kq is None:
                p, q = q, p
                kq = q.X.get((), 0)
            mk = kq & ((1 << w) - 1)
            if mk == 0:
                return A.val(w, {}, 0, 0)
            l = (mk & -mk).bit_length() - 1
            h = mk.bit_length()
            if mk != (1 << h) - (1 << l):
                raise Unsupported("and with a non-contiguous mask")
            top = A.fl(p.X, h)          # valid for any X == value (mod 2^w): the multiples of 2^w cancel
            X = padd(pscale(A.fl(p.X, l), 1 << l), pscale(top, 1 << h), -1)
            return A.val(w, X, 0, mk, eU=True)
        if op == "or":
            if "disjoint" in flags or self.disjoint(p, q, w):
                return A.val(w, padd(p.X, q.X), p.lo + q.lo, p.hi + q.hi,
                             eU=(p.eU and q.eU), eS=False)
            raise Unsupported("or of overlapping values")
        raise Unsupported("operation " + op)

    def bit(self, v, i):
        """bit i of the value as a polynomial with values 0 / 1 (valid for any X == value mod 2^w, i < w)"""
        return padd(self.A.fl(v.X, i), pscale(self.A.fl(v.X, i + 1), 2), -1)

    def is_neg(self, v):
        if v.eS:
            return ("lt0", v.X)
        if v.eU:
            return c_not(("lt0", padd(self.bit(v, v.w - 1), pconst(-1))))
        return ("lt0", self.A.S(v)[0])          # through the wrap atom of the lost carry

    @staticmethod
    def _tz(X):
        t = None
        for c in X.values():
            k = (c & -c).bit_length() - 1
            t = k if t is None else min(t, k)
        return t if t is not None else 10 ** 6

    def disjoint(self, p, q, w):
        for a, b in ((p, q), (q, p)):
            if a.eU and a.hi < (1 << min(self._tz(b.X), w)):
                return True
        return False

    def icmp(self, pred, p, q):
        A = self.A
        if pred in ("eq", "ne"):
            if p.eS and q.eS:
                (X, _l, _h), (Y, _l2, _h2) = A.S(p), A.S(q)
            else:
                (X, _l, _h), (Y, _l2, _h2) = A.U(p), A.U(q)
            d = padd(X, Y, -1)
            ne = c_or(("lt0", d), ("lt0", pscale(d, -1)))
            return ne if pred == "ne" else c_not(ne)
        if pred == "slt" and q.X == {}:
            return self.is_neg(p)
        if pred == "sgt" and q.X == pconst(-1):
            return c_not(self.is_neg(p))
        if pred == "sge" and q.X == {}:
            return c_not(self.is_neg(p))
        rd = A.S if pred[0] == "s" else A.U
        (X, _l, _h), (Y, _l2, _h2) = rd(p), rd(q)
        k = pred[1:]
        if k == "lt":
            return ("lt0", padd(X, Y, -1))
        if k == "ge":
            return c_not(("lt0", padd(X, Y, -1)))
        if k == "gt":
            return ("lt0", padd(Y, X, -1))
        return c_not(("lt0", padd(Y, X, -1)))

    # -- control flow: a chain of blocks; conditional branches only towards a diverging block ---------------------
    def diverges(self, b):
        ins = self.c.blocks.get(b)
        return bool(ins) and _strip(ins[-1]) == "unreachable"

    def sret_off(self, tok):
        if tok in self.args:
            return 0 if self.args[tok][0] == self.sret else None
        d = self.c.defs.get(tok)
        if d is None:
            return None
        m = re.match(r'^getelementptr (?:inbounds |nuw |nsw )*i8, ptr (%"[^"]+"|%[\w.$-]+), i(?:32|64) (\d+)$', _strip(d[1]))
        if m:
            base = self.sret_off(m.group(1))
            return None if base is None else base + int(m.group(2))
        return None

    def run(self):
        b = self.c.order[0]
        seen = set()
        while True:
            if b in seen:
                raise Unsupported("loop")
            seen.add(b)
            ins = self.c.blocks[b]
            for s in ins[:-1]:
                rs = _strip(s)
                if re.match(r'^(%"[^"]+"|%[\w.$-]+) = ', rs):
                    if rs.split(" = ", 1)[1].startswith("phi "):
                        raise Unsupported("phi")
                    continue
                ms = re.match(r'^store (.+?) ' + VAL + r', ptr (%"[^"]+"|%[\w.$-]+)$', rs)
                if ms and self.sret is not None:
                    ty, v, ptr = ms.groups()
                    off = self.sret_off(ptr)
                    if off is None:
                        raise Unsupported("store outside the sret slot")
                    self.stores[off] = self.get(v, ty.strip())
                    continue
                if rs.startswith(("call ", "tail call ")):
                    mc = RE_CALL.match(rs)
                    if mc and mc.group(2).startswith(E1.IGNORED_CALLS):
                        continue
                raise Unsupported("side effect: " + rs.split(" ", 1)[0])
            term = _strip(ins[-1])
            if term == "ret void":
                return
            if term.startswith("ret "):
                ty, tok = term[4:].rsplit(" ", 1)
                self.ret = self.get(tok, ty.strip())
                return
            m = re.match(r'^br label (%"[^"]+"|%[\w.$-]+)$', term)
            if m:
                b = m.group(1)[1:].strip('"')
                continue
            m = re.match(r'^br i1 ' + VAL + r', label (%"[^"]+"|%[\w.$-]+), label (%"[^"]+"|%[\w.$-]+)$', term)
            if m:
                c = self.cond_of(self.get(m.group(1), "i1"))
                t, f = m.group(2)[1:].strip('"'), m.group(3)[1:].strip('"')
                if self.diverges(t):
                    self.asserts.append(c_not(c))
                    b = f
                    continue
                if self.diverges(f):
                    self.asserts.append(c)
                    b = t
                    continue
                raise Unsupported("two-way branch")
            raise Unsupported("terminator " + term.split(" ", 1)[0])


# ---- case analysis over the wrap atoms ----------------------------------------------------------------------------------
def _atoms_of_poly(p, acc):
    for m in p:
        acc.update(m)


def _wrap_atoms(A, obj, acc):
    """wrap atoms occurring in a value / condition, also inside the arguments of floors"""
    todo = [obj]
    polys = []
    while todo:
        o = todo.pop()
        if isinstance(o, Val):
            polys.append(o.X)
        elif isinstance(o, dict):
            polys.append(o)
        elif isinstance(o, tuple):
            if o and o[0] == "lt0":
                polys.append(o[1])
            else:
                todo.extend(x for x in o if isinstance(x, (tuple, dict, Val)))
    seen = set()
    while polys:
        p = polys.pop()
        for m in p:
            for a in m:
                if a in seen:
                    continue
                seen.add(a)
                k = A.atoms[a]["key"]
                if k[0] == "w":
                    acc.add(a)
                    polys.append(A.atoms[a]["E"])
                elif k[0] == "fl":
                    polys.append(A.atoms[a]["R"])


def ceval(A, c, sigma):
    """truth value of a condition under sigma by interval bounds: True / False / None"""
    if c[0] == "k":
        return c[1]
    if c[0] == "lt0":
        lo, hi = A.bound(c[1], sigma)
        if hi < 0:
            return True
        if lo >= 0:
            return False
        return None
    if c[0] == "not":
        r = ceval(A, c[1], sigma)
        return None if r is None else (not r)
    a, b = ceval(A, c[1], sigma), ceval(A, c[2], sigma)
    if c[0] == "and":
        if a is False or b is False:
            return False
        if a is True and b is True:
            return True
        return None
    if a is True or b is True:
        return True
    if a is False and b is False:
        return False
    return None


def resolve(A, v, sigma):
    while isinstance(v, tuple) and v[0] == "sel":
        r = ceval(A, v[1], sigma)
        if r is None:
            raise Unsupported("a select is not decided by the wrap atoms")
        v = v[2] if r else v[3]
    return v


def cases(A, it, objs):
    """assignments of the wrap atoms that the function's own path conditions do not exclude"""
    ws = set()
    for o in list(objs) + list(it.asserts):
        _wrap_atoms(A, o, ws)
    ws = sorted(ws)
    n = 1
    for z in ws:
        n *= A.atoms[z]["hi"] - A.atoms[z]["lo"] + 1
    if n > MAX_CASES:
        raise Unsupported("too many carry cases")
    out = []
    for vals in _cartesian(*[range(A.atoms[z]["lo"], A.atoms[z]["hi"] + 1) for z in ws]):
        sigma = dict(zip(ws, vals))
        ok = True
        # an assignment is impossible when the atom's own argument cannot reach it
        for z, v in sigma.items():
            a = A.atoms[z]
            lo, hi = A.bound(a["E"], {k: x for k, x in sigma.items() if k != z})
            if hi + a["off"] < (v << a["w"]) or lo + a["off"] >= ((v + 1) << a["w"]):
                ok = False
                break
        if ok:
            for c in it.asserts:
                if ceval(A, c, sigma) is False:
                    ok = False
                    break
        if ok:
            out.append(sigma)
    if not out:
        raise Unsupported("no feasible case")
    return out


# ---- thresholds without floors --------------------------------------------------------------------------------------------
def unfloor(A, p, sigma):
    """condition equivalent to  p < 0  in which floors with coefficient +-1 have been multiplied out"""
    p = A.resub(p, sigma)
    for _ in range(8):
        cand = None
        for m, c in sorted(p.items()):
            # deterministic choice: the floor with the largest divisor first
            if len(m) == 1 and A.atoms[m[0]]["key"][0] == "fl" and c in (1, -1):
                if cand is None or A.atoms[m[0]]["k"] > A.atoms[cand[0][0]]["k"]:
                    cand = (m, c)
        if cand is None:
            break
        m, c = cand
        a = A.atoms[m[0]]
        R, k = A.resub(a["R"], sigma), a["k"]
        Z = dict(p)
        del Z[m]
        if c == 1:
            p = padd(pscale(Z, 1 << k), R)                 # Z + fl(R,k) < 0  <=>  2^k Z + R < 0
        else:
            # Z - fl(R,k) < 0  <=>  fl(R,k) >= Z + 1  <=>  R - 2^k (Z + 1) >= 0
            q = padd(R, pscale(padd(Z, pconst(1)), 1 << k), -1)
            return c_not(unfloor(A, q, sigma))
    return ("lt0", p)


def simplify(A, c, sigma, used):
    """the condition with every comparison that the bounds decide under sigma replaced by its truth value;
    evaluation short-circuits, and `used` collects the wrap atoms of the comparisons that were looked at (the
    atoms of an arm that is not selected stay out: they must not contribute hypotheses)"""
    if c[0] == "k":
        return c
    if c[0] == "lt0":
        ws = set()
        _wrap_atoms(A, c, ws)
        used |= ws
        r = ceval(A, c, {z: v for z, v in sigma.items() if z in ws})
        return c if r is None else ("k", r)
    if c[0] == "not":
        return c_not(simplify(A, c[1], sigma, used))
    a = simplify(A, c[1], sigma, used)
    if a[0] == "k" and a[1] == (c[0] == "or"):
        return a                                   # false and _ / true or _
    b = simplify(A, c[2], sigma, used)
    return c_and(a, b) if c[0] == "and" else c_or(a, b)


def canon_cond(A, c, sigma, used=None):
    """-> nested tuples over atoms ("thr", poly key without constant, theta) meaning poly < theta.  The parts
    decided under sigma are folded first; what remains is canonicalised under the hypotheses of the wrap atoms that
    took part (given in `used` for the other side of a comparison)"""
    mine = set()
    c = simplify(A, c, sigma, mine)
    if used is None:
        used = mine
    else:
        used |= mine
    ws = set()
    _wrap_atoms(A, c, ws)
    return _canon(A, c, {z: v for z, v in sigma.items() if z in ws}, {z: v for z, v in sigma.items() if z in used})


def _refloor_decide(A, p, sigma):
    """p < 0 for a floor-free p = Q - theta: also  fl(Q, k) < theta / 2^k  for 2^k | theta; the bounds recorded
    for the function's own intermediate values (high limbs) may decide that form"""
    th = -p.get((), 0)
    if th <= 0:
        return None
    Q = {m: x for m, x in p.items() if m != ()}
    t = (th & -th).bit_length() - 1
    for k in sorted({t, 128, 64, 192}, reverse=True):
        if 0 < k <= t:
            r = ceval(A, ("lt0", padd(A.fl(Q, k), pconst(-(th >> k)))), sigma)
            if r is not None:
                return r
    return None


def _canon(A, c, sigma, full=None):
    if c[0] == "k":
        return c
    if c[0] == "lt0":
        u = unfloor(A, c[1], sigma)
        if u[0] == "lt0" and full:
            r = _refloor_decide(A, u[1], full)
            if r is not None:
                return ("k", r)
        if u[0] != "lt0":
            return _canon(A, u, {}, full)
        p = u[1]
        lo, hi = A.bound(p, sigma)
        if hi < 0:
            return ("k", True)
        if lo >= 0:
            return ("k", False)
        k0 = p.get((), 0)
        q = {m: x for m, x in p.items() if m != ()}
        g = 0
        from math import gcd
        for x in q.values():
            g = gcd(g, abs(x))
        q = {m: x // g for m, x in q.items()}
        # g*q + k0 < 0  <=>  q < ceil(-k0 / g)
        thr = -(k0 // g)
        first = sorted(q.items())[0][1]
        if first < 0:
            q = {m: -x for m, x in q.items()}
            return ("not", ("thr", pkey(q), -thr + 1))
        return ("thr", pkey(q), thr)
    if c[0] == "not":
        r = _canon(A, c[1], sigma, full)
        return c_not(r) if r[0] != "k" else ("k", not r[1])
    a, b = _canon(A, c[1], sigma, full), _canon(A, c[2], sigma, full)
    return c_and(a, b) if c[0] == "and" else c_or(a, b)


def _thr_atoms(c, acc):
    if c[0] == "thr":
        acc.setdefault(c[1], set()).add(c[2])
    elif c[0] in ("not",):
        _thr_atoms(c[1], acc)
    elif c[0] in ("and", "or"):
        _thr_atoms(c[1], acc)
        _thr_atoms(c[2], acc)


def _beval(c, env):
    if c[0] == "k":
        return c[1]
    if c[0] == "thr":
        return env[(c[1], c[2])]
    if c[0] == "not":
        return not _beval(c[1], env)
    if c[0] == "and":
        return _beval(c[1], env) and _beval(c[2], env)
    return _beval(c[1], env) or _beval(c[2], env)


def equivalent(c1, c2):
    """two canonical conditions agree for every position of each polynomial among its thresholds (polynomials are
    treated as independent of each other: sufficient, not necessary)"""
    acc = {}
    _thr_atoms(c1, acc)
    _thr_atoms(c2, acc)
    polys = sorted(acc)
    if len(polys) > 6:
        raise Unsupported("too many distinct thresholds")
    ranges = [range(len(acc[p]) + 1) for p in polys]
    for pos in _cartesian(*ranges):
        env = {}
        for p, k in zip(polys, pos):
            ths = sorted(acc[p])
            # the value lies below exactly the thresholds with index >= k
            for i, t in enumerate(ths):
                env[(p, t)] = i >= k
        if _beval(c1, env) != _beval(c2, env):
            return False
    return True


# ---- the multiplication obligation ------------------------------------------------------------------------------------------
def check_mul(mod, fname, signed, width, frac, want_flag):
    """-> (value verdict, flag verdict) each True / False; raises Unsupported"""
    it = Interp(mod, fname, signed)
    it.run()
    A = it.A
    if it.sret is not None:
        val = it.stores.get(0)
        flag = it.stores.get(width // 8)
    elif isinstance(it.ret, tuple) and it.ret[0] == "agg":
        val, flag = it.ret[1][0], it.ret[1][1]
    else:
        val, flag = it.ret, None
    if val is None:
        raise Unsupported("no result value")
    a0 = A.ids.get(("arg", 0 if it.sret is None else 1))
    a1 = A.ids.get(("arg", 1 if it.sret is None else 2))
    if a0 is None or a1 is None:
        raise Unsupported("an operand is unused")
    P = {tuple(sorted((a0, a1))): 1}
    target = A.fl(P, frac)
    objs = [val]
    fc = None
    if want_flag:
        if flag is None:
            raise Unsupported("no flag")
        def as_cond(t):
            if isinstance(t, Val) and is_const(t.X) and t.X.get((), 0) in (0, 1):
                return ("k", t.X.get((), 0) == 1)
            if isinstance(t, Val) and 0 <= t.lo and t.hi <= 1:
                return c_not(("lt0", padd(t.X, pconst(-1))))          # a 0 / 1 value: set iff >= 1
            if isinstance(t, tuple) and t[0] == "cond":
                return t[1]
            if isinstance(t, tuple) and t[0] == "sel":
                return c_or(c_and(t[1], as_cond(t[2])), c_and(c_not(t[1]), as_cond(t[3])))
            raise Unsupported("flag is not a boolean")
        fc = as_cond(flag)
        objs.append(fc)
    sig = cases(A, it, objs)
    M = 1 << width
    ok_val = True
    for s in sig:
        v = resolve(A, val, s)
        if not isinstance(v, Val):
            raise Unsupported("result is not an integer")
        d = A.resub(padd(v.X, target, -1), s)
        if any(c % M for c in d.values()):
            ok_val = False
            break
    ok_flag = None
    if want_flag:
        if signed:
            # the shifted product fits  <=>  the discarded high part is the sign extension of the kept part
            #                           <=>  floor(P / 2^(w-1+F)) == floor(P / 2^(w+F))   (both are -1 or 0 then)
            T = padd(A.fl(P, width - 1 + frac), A.fl(P, width + frac), -1)
            tc = c_or(("lt0", T), ("lt0", pscale(T, -1)))
        else:
            tc = c_not(("lt0", padd(P, pconst(-(1 << (width + frac))))))
        ok_flag = True
        for s in sig:
            used = set()
            c1 = canon_cond(A, fc, s, used)
            c2 = canon_cond(A, tc, s, used)
            if not equivalent(c1, c2):
                ok_flag = False
                break
    return ok_val, ok_flag
