"""Engine A rule: which residual panic sites a root may have.

class T  (checked_/saturating_/wrapping_/overflowing_ forms, anything that
          returns Option/Result, comparison, hashing, formatting, conversion
          traits, every Wrapping item, the transcendental functions): no
          residual site at all, except the documented non-finite-float panics
          of the *_from_num(float) forms and table entries argued infeasible.
class P  (operations without overflow handling: operators, abs, ceil,
          from_num, ...): additionally the documented situations -- result does
          not fit (overflow kinds / debug_assert!(!overflow) raised in the
          operation itself, i.e. attributed to the root through class-P frames
          only), zero divisor (division-like operations), non-finite float."""
import os

from . import common as C
from .engine_a import site_key

TRIAGE_PATH = os.path.join(C.TABLES, "panic_triage.json")
LIBS_PATH = os.path.join(C.TABLES, "library_callees.json")

OVERFLOW_KINDS = ("overflow:add", "overflow:sub", "overflow:mul", "overflow:neg",
                  "overflow:shl", "overflow:shr", "div_overflow", "assert_fmt")


def load_triage():
    from .engine_a import normalise_key
    from .engine_fp import norm_fp
    t = C.load_json(TRIAGE_PATH, default={"entries": []})
    out = {}
    for e in t["entries"]:
        e = dict(e)
        e["key"] = normalise_key(e["key"])
        for f in ("fingerprints", "caller_fingerprints"):
            if e.get(f) is not None:
                e[f] = sorted({norm_fp(x) for x in e[f]})
        old = out.get(e["key"])
        if old is None:
            out[e["key"]] = e
            continue
        # two recorded keys that differ only in an assigning frame: one entry for both
        if old.get("applies") != e.get("applies"):
            raise ValueError("table entries %r collide after normalisation with different conditions" % e["key"])
        old["max_distinct_locations"] = old.get("max_distinct_locations", 0) + e.get("max_distinct_locations", 0)
        for f in ("fingerprints", "caller_fingerprints"):
            if old.get(f) is not None or e.get(f) is not None:
                old[f] = sorted(set(old.get(f) or []) | set(e.get(f) or []))
    return out


def load_libs():
    t = C.load_json(LIBS_PATH, default={"allowed": []})
    return {e["name"]: e for e in t["allowed"]}


def divlike(meta):
    b = (meta.get("base") or meta.get("api") or "")
    return "div" in b or "rem" in b


def judge(meta, site, triage):
    """-> (verdict, detail) verdict in permitted | triaged | violation"""
    kind, msg, fn = site["kind"], site.get("msg"), site["fn"]
    cls = meta["cls"]
    if kind == "assert" and msg in (meta.get("float_msgs") or ()):
        return "permitted", "documented non-finite float panic"
    if cls == "P":
        if divlike(meta):
            if kind in ("div0", "rem0"):
                return "permitted", "documented zero divisor"
            if kind in ("assert", "expect") and msg == "division by zero":
                return "permitted", "documented zero divisor"
        if fn == "ROOT":
            if kind in OVERFLOW_KINDS or (kind == "assert" and msg == "overflow"):
                return "permitted", "documented overflow panic of an operation without overflow handling"
    key = site_key(site)
    e = triage.get(key)
    if e is not None:
        ap = e.get("applies", "any")
        if ap == "any" or any(cond_holds(c, meta) for c in ap):
            return "triaged", key
        return "violation", ("table entry for this construct holds only for roots with %s; this root has none of "
                             "these preconditions" % " / ".join(ap))
    return "violation", "panic-capable construct reachable in a function that must not panic (no table entry)"


def cond_holds(cond, meta):
    k, v = cond.split("=", 1)
    if k == "guard":
        return (meta.get("guard") or "").startswith(v)
    if k == "api":
        return (meta.get("base") or meta.get("api")) == v
    return str(meta.get(k)) == v
