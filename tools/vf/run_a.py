"""Property-level driver for Engine A."""
import collections
import os

from . import api as A
from . import common as C
from . import engine_a
from . import facts
from . import plan
from . import rules_a
from . import engine_fp

FLOORS_PATH = os.path.join(C.TABLES, "floors.json")

CONTROLS = {
    "ctl__pos_add": {"overflow:add"},
    "ctl__neg_shift": set(),
    "ctl__pos_index": {"bounds"},
    "ctl__pos_unwrap": {"unwrap"},
    "ctl__pos_div": {"div0", "div_overflow"},
}


class EngineError(Exception):
    pass


_ctx = {}


def context(tier):
    c = _ctx.get(tier)
    if c is None:
        ap = A.Api()
        c = _ctx[tier] = {"api": ap, "plan": plan.Plan(ap, tier)}
    return c


def run(report, tier, parts, select, label, cfg="on", floors_key=None):
    """Runs Engine A over `parts`, applies the class rule to the roots chosen
    by `select(meta)`, records violations in `report`; returns coverage."""
    ctx = context(tier)
    crates = []
    for p in parts:
        crates += ctx["plan"].crates(p)
    F = facts.engine_a_facts(cfg, crates, ctx["api"])
    triage = rules_a.load_triage()
    libs_ok = rules_a.load_libs()
    # -- controls: the analysis must see what it is built to see ------------------
    nctl = 0
    for sym, e in F.items():
        m = e["meta"]
        if m["cls"] != "CTL":
            continue
        if e["res"] is None:
            raise EngineError("control root %s missing from the IR of %s" % (m["sym"], e["crate"]))
        kinds = {s["kind"] for s in e["res"]["sites"]}
        if kinds != CONTROLS[m["sym"]]:
            raise EngineError("control %s in %s: expected %s, found %s" % (
                m["sym"], e["crate"], sorted(CONTROLS[m["sym"]]), sorted(kinds)))
        nctl += 1
    stats = collections.Counter()
    mir = None
    fp_cache = {}
    positions = collections.defaultdict(set)
    pos_example = {}
    layouts = set()
    unanalysed = []
    samples = []
    nfuncs = 0
    lib_seen = collections.Counter()
    viol_roots = collections.defaultdict(list)
    viol_detail = {}
    per_group = collections.Counter()
    for sym, e in F.items():
        m = e["meta"]
        if m["cls"] == "CTL" or not select(m):
            continue
        if e["dropped"]:
            unanalysed.append({"root": sym, "why": "does not type-check on this tree: " + e["dropped"][:120]})
            continue
        if e["res"] is None:
            raise EngineError("root %s missing from the IR of %s" % (sym, e["crate"]))
        stats["roots"] += 1
        per_group[m["group"]] += 1
        layouts.add(m["layout"])
        nfuncs += e["res"]["nfuncs"]
        if e["res"]["indirect"]:
            stats["roots_with_indirect_calls"] += 1
        for l in e["res"]["libs"]:
            lib_seen[l] += 1
            if l not in libs_ok:
                k = "A|unmodelled library call|" + l
                viol_roots[k].append(sym)
                viol_detail.setdefault(k, {"what": "call into a library function that is not in tables/library_callees.json",
                                           "example_root": sym})
        for st in e["res"]["sites"]:
            stats["sites"] += 1
            v, why = rules_a.judge(m, st, triage)
            stats[v] += 1
            key = engine_a.site_key(st)
            if v == "triaged":
                positions[key].add(st["pos"])
                pos_example.setdefault((key, st["pos"]), (sym, st["chain"]))
                # the entry was argued for particular constructs: compare their fingerprints
                allowed = triage[key].get("fingerprints")
                ck = (key, st["pos"])
                if allowed is not None and ck not in fp_cache:
                    if mir is None:
                        mir = engine_fp.Mir()
                    fp_cache[ck] = [engine_fp.norm_fp(x) for x in
                                    mir.fingerprints(st["pos"], st["kind"], st.get("msg"), st.get("via") or [])]
                    if fp_cache[ck]:
                        stats["fp_located"] += 1
                        bad = [f for f in fp_cache[ck] if f not in allowed]
                        if bad:
                            k = "A|" + key + "|construct changed"
                            viol_roots[k].append(sym)
                            viol_detail.setdefault(k, {
                                "what": "the construct at this allow-listed site is not one the table entry was argued "
                                        "for: `%s` (recorded: %s); the infeasibility argument must be made again" % (
                                            bad[0][:160], "; ".join(a[:80] for a in allowed[:4])),
                                "example_root": sym, "fingerprint": bad, "recorded": allowed,
                                "path": st["chain"] + " <- " + sym})
                    else:
                        stats["fp_unlocated"] += 1
            elif v == "violation":
                k = "A|" + key
                viol_roots[k].append(sym)
                viol_detail.setdefault(k, {"what": why, "example_root": sym, "class": m["cls"],
                                           "guard": m.get("guard"), "path": st["chain"] + " <- " + sym})
            if len(samples) < 6 and v != "violation" and (stats["sites"] % 997 == 1):
                samples.append({"root": sym, "class": m["cls"], "site": key, "verdict": v,
                                "path": st["chain"][:300]})
    # -- more distinct source positions than the table entry was argued for ---------
    for key, ps in positions.items():
        mx = triage[key].get("max_distinct_locations", 0)
        ps = {p for p in ps if p not in ("root", "?")}
        if len(ps) > mx:
            k = "A|" + key + "|more positions"
            ex = [pos_example[(key, p)] for p in sorted(ps)]
            viol_roots[k].extend(x[0] for x in ex)
            viol_detail[k] = {"what": "%d distinct source positions carry this key but the table entry was argued for %d: "
                                      "a new panic-capable construct of the same kind in the same function" % (len(ps), mx),
                              "positions": sorted(ps), "paths": [x[1][:300] for x in ex]}
    # -- the other end of each argument: what the callers of the function pass ---------------
    ncallers = 0
    for key in positions:
        allowed = triage[key].get("caller_fingerprints")
        if allowed is None:
            continue
        if mir is None:
            mir = engine_fp.Mir()
        cur = [engine_fp.norm_fp(x) for x in mir.caller_fingerprints(key.split(" | ")[0])]
        ncallers += len(cur)
        bad = [f for f in cur if f not in allowed]
        if bad:
            k = "A|" + key + "|callers changed"
            ex = sorted(pos_example[(key, p)] for p in positions[key] if (key, p) in pos_example)
            viol_roots[k].extend(x[0] for x in ex[:8])
            viol_detail[k] = {"what": "a call to the function holding this allow-listed construct passes something the "
                                      "table entry was not argued for: `%s` (recorded: %s); the entry's reason (%s) "
                                      "rests on what callers pass and must be argued again" % (
                                          bad[0][:200], "; ".join(a[:90] for a in allowed[:3]), triage[key].get("reason", "")[:120]),
                              "call": bad, "recorded": allowed}
    # -- suppliers: functions whose result establishes the invariant an entry rests on ----------------------------
    nsup = 0
    for key in positions:
        sup = triage[key].get("suppliers")
        if not sup:
            continue
        if mir is None:
            mir = engine_fp.Mir()
        for srx, recorded in sup.items():
            n, cur = mir.body_fingerprint(srx)
            nsup += 1
            if n == 1 and cur == recorded:
                continue
            k = "A|" + key + "|supplier changed"
            ex = sorted(pos_example[(key, p)] for p in positions[key] if (key, p) in pos_example)
            viol_roots[k].extend(x[0] for x in ex[:8])
            diff = sorted(set(cur) ^ set(recorded))
            viol_detail[k] = {"what": "the entry's reason (%s) rests on what `%s` guarantees about its result, and the "
                                      "decision structure of that function is not the one the entry was argued for "
                                      "(%s): the infeasibility argument must be made again" % (
                                          triage[key].get("reason", "")[:120], srx.strip("^$"),
                                          ("%d functions match" % n) if n != 1 else "; ".join(d[:70] for d in diff[:3])),
                              "supplier": srx, "differences": diff[:20]}
    stats["supplier_fingerprints"] = nsup
    stats["caller_renderings"] = ncallers
    for k, roots in viol_roots.items():
        d = dict(viol_detail[k])
        d["roots"] = len(roots)
        d["some_roots"] = sorted(set(roots))[:8]
        report.violation("A:" + label, k, d["what"], d)
    if stats["fp_located"] + stats["fp_unlocated"] >= 10 and stats["fp_located"] < 0.75 * (stats["fp_located"] + stats["fp_unlocated"]):
        raise EngineError("only %d of %d allow-listed constructs could be located in MIR: the fingerprint rule would "
                          "pass vacuously" % (stats["fp_located"], stats["fp_located"] + stats["fp_unlocated"]))
    # -- floors: fail closed when the enumeration shrinks -------------------------------
    floors = C.load_json(FLOORS_PATH, default={})
    fk = floors_key or label
    want = floors.get(tier, {}).get(fk)
    if want is not None and stats["roots"] < want:
        raise EngineError("only %d roots analysed for %s/%s, floor is %d (enumeration broken?)" % (
            stats["roots"], tier, fk, want))
    if not samples:
        for sym, e in F.items():
            if e["meta"]["cls"] != "CTL" and select(e["meta"]) and e["res"] is not None:
                samples.append({"root": sym, "class": e["meta"]["cls"], "sites": len(e["res"]["sites"]),
                                "functions_reached": e["res"]["nfuncs"]})
                if len(samples) >= 3:
                    break
    return {
        "engine": "A (may-panic reachability on optimised monomorphic LLVM IR, checks on)",
        "roots_analysed": stats["roots"], "roots_per_group": dict(per_group),
        "layouts": len(layouts), "functions_reached_sum": nfuncs,
        "residual_sites": stats["sites"], "permitted_by_class": stats["permitted"],
        "triaged_infeasible": stats["triaged"], "violating_sites": stats["violation"],
        "distinct_table_keys_hit": len(positions), "controls_passed": nctl,
        "allow_listed_constructs_fingerprinted": stats["fp_located"], "allow_listed_constructs_not_located": stats["fp_unlocated"],
        "caller_renderings_compared": stats["caller_renderings"], "supplier_fingerprints_compared": stats["supplier_fingerprints"],
        "crates": len(crates), "unanalysed": unanalysed[:20], "unanalysed_count": len(unanalysed),
        "library_callees": dict(lib_seen), "roots_with_indirect_calls": stats["roots_with_indirect_calls"],
        "samples": samples, "floor": want,
    }
