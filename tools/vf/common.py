"""Shared infrastructure: paths, source hash, work directories, locks,
subprocess helpers, evidence and known-findings handling."""
import fcntl
import hashlib
import json
import os
import shutil
import subprocess
import sys
import time

VERIF = os.path.dirname(os.path.dirname(os.path.dirname(os.path.abspath(__file__))))
REPO = os.environ.get("VERIF_REPO", "/repo")
WORK = os.path.join(VERIF, ".work")
TABLES = os.path.join(VERIF, "tables")
# evidence/<id>.json is rewritten by every run against /repo; runs against a scratch tree (VERIF_REPO) or a
# seeded change (tools/dev/run_seed.sh sets VERIF_EVIDENCE_DIR) write elsewhere so that the committed evidence
# always describes the unchanged tree
EVIDENCE = os.environ.get("VERIF_EVIDENCE_DIR") or (
    os.path.join(VERIF, "evidence") if REPO == "/repo" else os.path.join(WORK, "evidence-scratch"))
REPLAY = os.path.join(WORK, "replay")
KNOWN_FINDINGS = os.path.join(VERIF, "known_findings.json")
KEEP_HASH_DIRS = 3

OFFLINE_ENV = {
    "CARGO_NET_OFFLINE": "true",
    "CARGO_TERM_COLOR": "never",
}


def log(*a):
    print(*a, file=sys.stderr, flush=True)


def seed():
    try:
        return int(os.environ.get("VERIF_SEED", "0"))
    except ValueError:
        return 0


def source_files():
    out = []
    for top in ("Cargo.toml", "Cargo.lock", "build.rs"):
        p = os.path.join(REPO, top)
        if os.path.isfile(p):
            out.append(p)
    for root, dirs, files in os.walk(os.path.join(REPO, "src")):
        dirs.sort()
        for f in sorted(files):
            out.append(os.path.join(root, f))
    return out


_hash_cache = None


def source_hash():
    """sha256 over the files cargo compiles for the library (working tree)."""
    global _hash_cache
    if _hash_cache is None:
        h = hashlib.sha256()
        for p in source_files():
            h.update(os.path.relpath(p, REPO).encode())
            h.update(b"\0")
            with open(p, "rb") as fh:
                h.update(fh.read())
            h.update(b"\0")
        _hash_cache = h.hexdigest()[:20]
    return _hash_cache


def file_hash(*paths):
    h = hashlib.sha256()
    for p in paths:
        with open(p, "rb") as fh:
            h.update(fh.read())
    return h.hexdigest()[:16]


def text_hash(*texts):
    h = hashlib.sha256()
    for t in texts:
        h.update(t.encode() if isinstance(t, str) else t)
        h.update(b"\0")
    return h.hexdigest()[:16]


def stamp_ok(path, stamp):
    """An artifact is reusable iff it exists and its .stamp equals `stamp`
    (a hash of everything that went into producing it)."""
    try:
        with open(path + ".stamp") as fh:
            return fh.read().strip() == stamp and os.path.exists(path)
    except FileNotFoundError:
        return False


def write_stamp(path, stamp):
    with open(path + ".stamp", "w") as fh:
        fh.write(stamp)


def hash_dir():
    d = os.path.join(WORK, "h-" + source_hash())
    if not os.path.isdir(d):
        os.makedirs(d, exist_ok=True)
        _prune_hash_dirs(keep=d)
    os.utime(d, None)
    return d


def _prune_hash_dirs(keep):
    try:
        ds = [os.path.join(WORK, x) for x in os.listdir(WORK) if x.startswith("h-")]
    except FileNotFoundError:
        return
    # developer convenience: directories named in .work/pinned_hashes (one per line) are never pruned, so that the
    # cache of the unchanged tree survives a series of runs on seeded trees
    try:
        pinned = {x.strip() for x in open(os.path.join(WORK, "pinned_hashes")) if x.strip()}
    except OSError:
        pinned = set()
    ds = [d for d in ds if os.path.isdir(d) and d != keep and os.path.basename(d) not in pinned]
    ds.sort(key=lambda d: os.path.getmtime(d), reverse=True)
    for d in ds[KEEP_HASH_DIRS - 1:]:
        shutil.rmtree(d, ignore_errors=True)


class Lock:
    """Process lock (flock) serialising builds that share a cargo target dir."""

    def __init__(self, name):
        os.makedirs(WORK, exist_ok=True)
        self.path = os.path.join(WORK, name + ".lock")
        self.fh = None

    def __enter__(self):
        self.fh = open(self.path, "w")
        fcntl.flock(self.fh, fcntl.LOCK_EX)
        return self

    def __exit__(self, *a):
        fcntl.flock(self.fh, fcntl.LOCK_UN)
        self.fh.close()


def run(cmd, cwd=None, env=None, timeout=None, check=True, capture=True):
    e = dict(os.environ)
    e.update(OFFLINE_ENV)
    if env:
        e.update(env)
    t0 = time.time()
    p = subprocess.run(cmd, cwd=cwd, env=e, timeout=timeout,
                       stdout=subprocess.PIPE if capture else None,
                       stderr=subprocess.PIPE if capture else None,
                       text=True)
    dt = time.time() - t0
    if check and p.returncode != 0:
        log("command failed (%d) after %.1fs: %s" % (p.returncode, dt, " ".join(cmd)))
        if capture:
            log((p.stdout or "")[-4000:])
            log((p.stderr or "")[-8000:])
        raise RuntimeError("command failed: " + " ".join(cmd[:4]))
    return p


def nightly_sysroot():
    p = run(["rustc", "+nightly", "--print", "sysroot"])
    return p.stdout.strip()


def nightly_tool(name):
    sr = nightly_sysroot()
    base = os.path.join(sr, "lib", "rustlib")
    for t in os.listdir(base):
        cand = os.path.join(base, t, "bin", name)
        if os.path.isfile(cand):
            return cand
    raise RuntimeError("nightly llvm tool not found: " + name)


def load_json(path, default=None):
    try:
        with open(path) as fh:
            return json.load(fh)
    except FileNotFoundError:
        if default is not None:
            return default
        raise


def save_json(path, obj, indent=1):
    os.makedirs(os.path.dirname(path), exist_ok=True)
    tmp = path + ".tmp%d" % os.getpid()
    with open(tmp, "w") as fh:
        json.dump(obj, fh, indent=indent, sort_keys=False)
        fh.write("\n")
    os.replace(tmp, path)


# ---------------------------------------------------------------------------
# known findings

def load_known_findings():
    """known_findings.json: {"open": [{"property","key","what"}],
    "fixed": [{"property","commit","what"}]}.  Only `open` entries suppress,
    and only by exact (property, key)."""
    kf = load_json(KNOWN_FINDINGS, default={"open": [], "fixed": []})
    return kf


class Report:
    """Collects violations for one property run and renders the interface
    lines (KNOWN-FINDING / VIOLATION) and the evidence file."""

    def __init__(self, pid, tier):
        self.pid = pid
        self.tier = tier
        self.t0 = time.time()
        self.violations = []      # dicts with 'key', 'engine', 'what', 'detail'
        self.known = []
        self.coverage = {}
        self.assumptions = []
        self.notes = []
        kf = load_known_findings()
        self._open = {(e["property"], e["key"]): e for e in kf.get("open", [])}

    def violation(self, engine, key, what, detail=None):
        ent = {"engine": engine, "key": key, "what": what, "detail": detail}
        if (self.pid, key) in self._open:
            if not any(k["key"] == key for k in self.known):
                self.known.append(ent)
            return
        self.violations.append(ent)

    def finish(self, level, coverage, assumptions=None):
        os.makedirs(EVIDENCE, exist_ok=True)
        wall = time.time() - self.t0
        cov = dict(coverage)
        cov.setdefault("known_findings_reported", len(self.known))
        ev = {
            "property_id": self.pid,
            "tier": self.tier,
            "seed": seed(),
            "level": level,
            "coverage": cov,
            "assumptions": list(assumptions or []) + self.assumptions,
            "wall_s": round(wall, 2),
            "violations": len(self.violations),
        }
        save_json(os.path.join(EVIDENCE, self.pid + ".json"), ev)
        for k in self.known:
            print("KNOWN-FINDING: property=%s %s -- %s" % (self.pid, k["key"], k["what"]))
        if self.violations:
            os.makedirs(REPLAY, exist_ok=True)
            path = os.path.join(REPLAY, "%s-%s.json" % (self.pid, self.tier))
            save_json(path, {"property": self.pid, "tier": self.tier,
                             "source_hash": source_hash(),
                             "violations": self.violations})
            seen = set()
            for v in self.violations:
                if v["key"] in seen:
                    continue
                seen.add(v["key"])
                print("  violating construct [%s]: %s -- %s" % (v["engine"], v["key"], v["what"]))
            print("VIOLATION property=%s replay=%s" % (self.pid, path))
            return 1
        print("OK property=%s tier=%s wall=%.1fs" % (self.pid, self.tier, wall))
        return 0
