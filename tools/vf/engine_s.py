"""Engine S: structure rules over textual MIR, rustdoc-JSON and source tokens.

S-widest  every consumer of `helpers::Widest` that truncates the payload to a
          narrower / differently-signed integer accounts for the destination
          sign bit (necessary for C03, C04).
S-shape   the ten fixed-point structs are transparent wrappers of the
          primitive integer with derived codec impls (C10).
S-cfg     no profile-conditional code outside `debug_assert*!` (C11)."""
import os
import re

from . import common as C

SIGNED = {"i8", "i16", "i32", "i64", "i128", "isize"}
UNSIGNED = {"u8", "u16", "u32", "u64", "u128", "usize"}


def mir_text():
    """textual MIR of the current tree (one emission with spans serves S-widest and the fingerprints)"""
    from . import engine_fp
    return engine_fp.mir_spans_text()


RE_FN = re.compile(r"^fn (.*?)\((.*)\) -> (.*) \{$")
RE_BB = re.compile(r"^    (bb\d+)(?: \(cleanup\))?: \{$")
RE_ASSIGN = re.compile(r"^        (_\d+|\(\*_\d+\)|\(_\d+\.\d+: [^)]+\)) = (.*);$")
RE_LOCAL = re.compile(r"_\d+")
RE_PAYLOAD = re.compile(r"^copy \(\(\((_\d+)(?:\.\d+: [^)]*)?\) as (Unsigned|Negative)\)\.0: (u128|i128)\)$")
RE_PAYLOAD2 = re.compile(r"\(\([^;]*helpers::Widest\) as (Unsigned|Negative)\)\.0: (u128|i128)\)")
RE_CAST = re.compile(r"^(?:copy|move) (_\d+) as (\w+) \(IntToInt\)$")


class MirFn:
    def __init__(self, name, params, ret):
        self.name = name
        self.params = params
        self.ret = ret
        self.blocks = {}      # bb -> [lines]
        self.order = []
        self.file = None      # source module (from the first span comment of the body)

    def short(self):
        """method name + parameter types (no source positions)"""
        meth = self.name.rsplit("::", 1)[-1]
        ptys = re.sub(r"_\d+: ", "", self.params)
        return "%s(%s)" % (meth, ptys)


def parse_mir(path):
    fns = []
    cur = None
    bb = None
    with open(path) as fh:
        for ln in fh:
            ln = ln.rstrip("\n")
            if " // " in ln:
                if cur is not None and cur.file is None:
                    mf = re.search(r"src/(\w+)\.rs:\d+", ln)
                    if mf:
                        cur.file = mf.group(1)
                ln = ln.split(" // ")[0].rstrip()      # span comments
            if ln.lstrip().startswith("//"):
                continue
            if cur is None:
                m = RE_FN.match(ln)
                if m:
                    cur = MirFn(m.group(1), m.group(2), m.group(3))
                    bb = None
                continue
            if ln == "}":
                fns.append(cur)
                cur = None
                continue
            m = RE_BB.match(ln)
            if m:
                bb = m.group(1)
                cur.blocks[bb] = []
                cur.order.append(bb)
                continue
            if bb is not None and ln.startswith("        "):
                cur.blocks[bb].append(ln)
    return fns


def widest_check(fn):
    """-> (n_payload_reads, [risky casts], [violations])"""
    payload = {}      # local -> 'Unsigned'|'Negative'
    stmts = []        # (bb, lhs, rhs)
    others = []       # (bb, line) terminators / non-assignments
    for bb in fn.order:
        for ln in fn.blocks[bb]:
            m = RE_ASSIGN.match(ln)
            if m:
                lhs, rhs = m.group(1), m.group(2)
                stmts.append((bb, lhs, rhs))
                mp = RE_PAYLOAD2.search(rhs)
                if mp and "helpers::Widest" in rhs:
                    loc = RE_LOCAL.match(lhs)
                    if loc:
                        payload[loc.group(0)] = mp.group(1)
            else:
                others.append((bb, ln.strip()))
    if not payload:
        return 0, [], []
    risky = []
    for (bb, lhs, rhs) in stmts:
        m = RE_CAST.match(rhs)
        if not m:
            continue
        src, ty = m.group(1), m.group(2)
        if src not in payload:
            continue
        kind = payload[src]
        if (kind == "Unsigned" and ty in SIGNED) or (kind == "Negative" and ty in UNSIGNED):
            loc = RE_LOCAL.match(lhs)
            risky.append({"bb": bb, "cast": loc.group(0) if loc else lhs, "payload": src,
                          "variant": kind, "to": ty})
    viol = []
    for r in risky:
        # forward data-flow closure from the truncated value and from the payload
        tainted = {r["cast"], r["payload"]}
        changed = True
        while changed:
            changed = False
            for (bb, lhs, rhs) in stmts:
                loc = RE_LOCAL.match(lhs.lstrip("(*"))
                if not loc or loc.group(0) in tainted:
                    continue
                if any(t in tainted for t in RE_LOCAL.findall(rhs)):
                    # only value-carrying rvalues: copies, moves, casts, aggregates, projections, refs
                    if re.match(r"^(copy|move|&|\(|const)", rhs) or " as " in rhs:
                        tainted.add(loc.group(0))
                        changed = True
        ok = False
        why = None
        for (bb, lhs, rhs) in stmts:
            m = re.match(r"^(Lt|Le|Gt|Ge)\((.*)\)$", rhs)
            if m:
                a, b = _split2(m.group(2))
                la, lb = RE_LOCAL.findall(a), RE_LOCAL.findall(b)
                if (any(x in tainted for x in la) and b.startswith("const")) or \
                        (any(x in tainted for x in lb) and a.startswith("const")):
                    ok, why = True, "range/sign test against a constant"
                    break
        if not ok:
            for (bb, ln) in others:
                if re.search(r"\bis_negative\(|\bis_positive\(|\bsignum\(", ln) and \
                        any(t in tainted for t in RE_LOCAL.findall(ln.split("->")[0])):
                    ok, why = True, "is_negative on the truncated value"
                    break
            for (bb, lhs, rhs) in stmts:
                if re.search(r"\bis_negative\(|\bis_positive\(", rhs) and \
                        any(t in tainted for t in RE_LOCAL.findall(rhs)):
                    ok, why = True, "is_negative on the truncated value"
                    break
        if not ok:
            # the match arm has an effect of its own: `x = const true` in the arm's block
            for (bb, lhs, rhs) in stmts:
                if bb == r["bb"] and rhs == "const true":
                    ok, why = True, "arm sets its own overflow flag"
                    break
        r["handled_by"] = why
        if not ok:
            viol.append(r)
    return len(payload), risky, viol


def _split2(s):
    depth = 0
    for i, ch in enumerate(s):
        if ch in "([":
            depth += 1
        elif ch in ")]":
            depth -= 1
        elif ch == "," and depth == 0:
            return s[:i].strip(), s[i + 1:].strip()
    return s, ""


def s_widest(report, label, floors=None):
    fns = parse_mir(mir_text())
    consumers = 0
    risky_total = 0
    nviol = 0
    by_file = {}
    samples = []
    handled = {}
    ovf_checked = [0]
    for fn in fns:
        n, risky, viol = widest_check(fn)
        if n == 0:
            continue
        consumers += 1
        risky_total += len(risky)
        m = re.search(r"src/(\w+)\.rs", fn.name)
        f = m.group(1) if m else "?"
        by_file[f] = by_file.get(f, 0) + 1
        for r in risky:
            handled[r.get("handled_by")] = handled.get(r.get("handled_by"), 0) + 1
        if len(samples) < 3 and risky and not viol and f not in {s["file"] for s in samples}:
            samples.append({"file": f, "fn": fn.short()[:160], "risky_casts": [
                "%s payload -> %s, %s" % (r["variant"], r["to"], r["handled_by"]) for r in risky]})
        # S-ovf (error discipline, same consumers): whoever reads the helper's re-expressed bits also reads its
        # overflow verdict -- otherwise bits truncated to the destination width are taken for the value.  Holds for
        # every consumer on the pinned tree (no exception list).
        text = "\n".join(l for b in fn.order for l in fn.blocks[b])
        for hl in sorted(set(re.findall(r"\((_\d+)\.0: helpers::Widest\)", text))):
            ovf_checked[0] += 1
            if not re.search(r"\(%s\.\d+: bool\)" % re.escape(hl), text):
                nviol += 1
                report.violation("S-widest:" + label, "S-ovf|%s" % fn.short(),
                                 "the bits of a ToFixedHelper are used without reading its overflow flag: a right-hand "
                                 "side / source outside the destination range is then compared or converted by its "
                                 "truncated bits", {"function": fn.name, "helper_local": hl})
        for r in viol:
            nviol += 1
            key = "S-widest|%s|%s->%s" % (fn.short(), r["variant"], r["to"])
            report.violation("S-widest:" + label, key,
                             "the %s payload of helpers::Widest is truncated to %s without any test of the "
                             "destination sign bit: a value that needs the top bit is read with the wrong sign" % (
                                 r["variant"], r["to"]),
                             {"function": fn.name, "block": r["bb"], "cast_local": r["cast"]})
    cov = {"engine": "S-widest (textual MIR: every truncation of a Widest payload is sign-checked)",
           "mir_functions": len(fns), "consumer_bodies": consumers, "consumers_by_file": by_file,
           "risky_casts": risky_total, "handled_by": {str(k): v for k, v in handled.items()},
           "violating_casts": nviol, "helper_uses_checked_for_overflow_read": ovf_checked[0], "samples": samples}
    if floors:
        if consumers < floors.get("consumers", 0) or risky_total < floors.get("risky", 0):
            from .run_a import EngineError
            raise EngineError("S-widest found %d consumer bodies / %d risky casts, floors %s -- MIR shape changed, "
                              "the rule would pass vacuously" % (consumers, risky_total, floors))
    return cov


# ---------------------------------------------------------------------------
# S-cfg: profile-conditional code

def strip_comments_and_strings(src):
    out = []
    i, n = 0, len(src)
    while i < n:
        c = src[i]
        if src.startswith("//", i):
            j = src.find("\n", i)
            i = n if j < 0 else j
        elif src.startswith("/*", i):
            depth, i = 1, i + 2
            while i < n and depth:
                if src.startswith("/*", i):
                    depth += 1
                    i += 2
                elif src.startswith("*/", i):
                    depth -= 1
                    i += 2
                else:
                    i += 1
        elif c == '"':
            i += 1
            while i < n and src[i] != '"':
                i += 2 if src[i] == "\\" else 1
            i += 1
            out.append('""')
        elif c == "r" and re.match(r'r#*"', src[i:]):
            m = re.match(r'r(#*)"', src[i:])
            end = src.find('"' + m.group(1), i + len(m.group(0)))
            i = n if end < 0 else end + 1 + len(m.group(1))
            out.append('""')
        else:
            out.append(c)
            i += 1
    return "".join(out)


def cfg_scan_text(text):
    """tokens `debug_assertions` / `overflow_checks` / `overflow-checks` in code
    position (cfg!, #[cfg], cfg_attr, build-script env) -> list of line numbers"""
    code = strip_comments_and_strings(text)
    hits = []
    for m in re.finditer(r"\b(debug_assertions|overflow_checks)\b", code):
        hits.append(code.count("\n", 0, m.start()) + 1)
    return hits


MUTATING = re.compile(
    r"(?<![=!<>+\-*/%&|^])=(?!=)|\+=|-=|\*=|/=|%=|<<=|>>=|&=|\|=|\^=|&\s*mut\b|"
    r"\.(next|next_back|nth|push|push_str|pop|insert|remove|take|replace|swap|set|advance|read|write|drain|clear|"
    r"truncate|fill|sort|reverse|extend|append|retain|dedup|get_mut|as_mut|iter_mut|borrow_mut|lock|fetch_\w+|store|"
    r"\w+_assign)\s*\(")


def debug_assert_args(text):
    """-> [(line, argument text)] of every debug_assert*! invocation (comments/strings removed)"""
    code = strip_comments_and_strings(text)
    out = []
    for m in re.finditer(r"\bdebug_assert(?:_eq|_ne)?\s*!\s*([(\[{])", code):
        open_ch = m.group(1)
        close_ch = {"(": ")", "[": "]", "{": "}"}[open_ch]
        depth, i = 0, m.end() - 1
        while i < len(code):
            if code[i] == open_ch:
                depth += 1
            elif code[i] == close_ch:
                depth -= 1
                if depth == 0:
                    break
            i += 1
        out.append((code.count("\n", 0, m.start()) + 1, code[m.end():i]))
    return out


def s_cfg(report, label):
    files = [p for p in C.source_files() if p.endswith(".rs")]
    # positive control: the scanner must find a planted use
    planted = 'fn f() { if cfg!(debug_assertions) { g() } } // debug_assertions in a comment\nconst S: &str = "overflow_checks";'
    if cfg_scan_text(planted) != [1]:
        from .run_a import EngineError
        raise EngineError("S-cfg self-test failed")
    total = 0
    for p in files:
        with open(p) as fh:
            txt = fh.read()
        for ln in cfg_scan_text(txt):
            total += 1
            rel = os.path.relpath(p, C.REPO)
            report.violation("S-cfg:" + label, "S-cfg|%s" % rel,
                             "profile-conditional code: `debug_assertions`/`overflow_checks` used as a cfg in %s; "
                             "a call that returns normally could then return different values per profile" % rel,
                             {"file": rel, "line": ln})
    # debug-only code must not have side effects: the arguments of debug_assert*! are evaluated only under
    # debug assertions, so an assignment / mutating call inside them makes returned values profile-dependent
    planted2 = "fn f(it: &mut I) { debug_assert!(it.next().is_some()); debug_assert!(a == b, \"x = {}\", 1); }"
    pa = [bool(MUTATING.search(a)) for (_l, a) in debug_assert_args(planted2)]
    if pa != [True, False]:
        from .run_a import EngineError
        raise EngineError("S-cfg debug_assert-argument self-test failed: %r" % pa)
    nargs = 0
    for p in files:
        with open(p) as fh:
            txt = fh.read()
        rel = os.path.relpath(p, C.REPO)
        for (ln, arg) in debug_assert_args(txt):
            nargs += 1
            mm = MUTATING.search(arg)
            if mm:
                total += 1
                report.violation("S-cfg:" + label, "S-dbgarg|%s|%s" % (rel, re.sub(r"\s+", " ", arg.strip())[:80]),
                                 "side effect (`%s`) inside the argument of a debug_assert in %s: it is evaluated only "
                                 "under debug assertions, so the two build profiles compute different values" % (
                                     mm.group(0).strip(), rel), {"file": rel, "line": ln})
    return {"engine": "S-cfg (token scan of src/**/*.rs and build.rs outside comments/strings)",
            "debug_assert_invocations_checked": nargs,
            "files_scanned": len(files), "cfg_uses_found": total, "positive_control": "found",
            "samples": [{"file": os.path.relpath(p, C.REPO)} for p in files[:3]]}


# ---------------------------------------------------------------------------
# S-shape: representation of the fixed-point structs (C10)

def s_shape(report, label, api):
    from . import api as A
    checked = 0
    samples = []

    def bad(key, what, detail=None):
        report.violation("S-shape:" + label, "S-shape|" + key, what, detail)

    structs = api.fixed_structs()
    if len(structs) < 10:
        from .run_a import EngineError
        raise EngineError("S-shape: only %d Fixed structs found in rustdoc JSON" % len(structs))
    for s in structs:
        it = api.structs[s]
        m = A.FIXED_RE.match(s)
        prim = ("i" if m.group(1) == "I" else "u") + m.group(2)
        reprs = [a["repr"]["kind"] for a in it.get("attrs", []) if isinstance(a, dict) and "repr" in a]
        checked += 1
        if "transparent" not in reprs:
            bad(s + "|repr", "%s is not #[repr(transparent)]: its layout is no longer that of the integer" % s)
        fields = api.struct_fields(s)
        shape = []
        for (name, ty, raw) in fields:
            if "primitive" in ty:
                shape.append((name, ty["primitive"]))
            elif "resolved_path" in ty:
                shape.append((name, ty["resolved_path"]["path"].split("::")[-1]))
            else:
                shape.append((name, "?"))
            if raw.get("attrs"):
                bad(s + "|field-attr|" + name, "field %s.%s carries attributes %r (a codec/serde helper attribute changes the encoding)" % (s, name, raw["attrs"]))
        checked += 1
        if [t for (_n, t) in shape] != [prim, "PhantomData"]:
            bad(s + "|fields", "%s has fields %r, expected exactly [%s, PhantomData<Frac>] in that order "
                               "(derived SCALE codec encodes fields in order)" % (s, shape, prim))
        for tr in ("Encode", "Decode", "MaxEncodedLen"):
            ims = [im for im in api.impls[s] if im.trait == tr and not im.blanket]
            checked += 1
            if len(ims) != 1 or "automatically_derived" not in [a if isinstance(a, str) else "" for a in ims[0].attrs]:
                bad(s + "|" + tr, "%s: expected exactly one #[derive]d %s impl, found %d (derived=%s)" % (
                    s, tr, len(ims), [im.attrs for im in ims]))
        if len(samples) < 2:
            samples.append({"struct": s, "repr": reprs, "fields": shape})
    # Wrapping<F>
    if "Wrapping" in api.structs:
        it = api.structs["Wrapping"]
        reprs = [a["repr"]["kind"] for a in it.get("attrs", []) if isinstance(a, dict) and "repr" in a]
        fields = api.struct_fields("Wrapping")
        checked += 2
        if "transparent" not in reprs:
            bad("Wrapping|repr", "Wrapping<F> is not #[repr(transparent)]")
        if len(fields) != 1 or "generic" not in fields[0][1]:
            bad("Wrapping|fields", "Wrapping<F> should have exactly one field of type F")
    # helper attributes are invisible in rustdoc JSON: lexical count, expected 0
    planted = "#[derive(Encode)] struct X { #[codec(compact)] a: u32 } // #[codec(skip)]"
    if len(helper_attr_scan(planted)) != 1:
        from .run_a import EngineError
        raise EngineError("S-shape helper-attribute self-test failed")
    nattr = 0
    for p in C.source_files():
        if not p.endswith(".rs"):
            continue
        with open(p) as fh:
            for ln in helper_attr_scan(fh.read()):
                nattr += 1
                rel = os.path.relpath(p, C.REPO)
                bad("helper-attr|" + rel, "derive helper attribute #[codec(..)]/#[serde(..)] in %s changes the wire format" % rel,
                    {"file": rel, "line": ln})
    return {"engine": "S-shape (rustdoc-JSON: repr, field list, derived codec impls; token scan for helper attributes)",
            "structs": len(structs) + 1, "shape_obligations": checked, "helper_attributes_found": nattr,
            "samples": samples}


def helper_attr_scan(text):
    code = strip_comments_and_strings(text)
    return [code.count("\n", 0, m.start()) + 1 for m in re.finditer(r"#\s*\[\s*(codec|serde)\s*\(", code)]


# ---------------------------------------------------------------------------
# S-flag: overflow flags are not dropped (error-discipline rule; C02 C04 C06 C07 C08 C09)
#
# Every call of a function named `overflowing_*` returns (value, flag).  The crate derives its wrapping_ forms by
# dropping the flag on purpose; every other overflow verdict (checked_/saturating_/overflowing_, the parser's and
# formatter's carries) is assembled from these flags.  The rule: in no function body may more calls of one
# `overflowing_*` callee discard the flag than on the pinned tree (tables/flag_drops.json: per normalised function
# and callee the maximal number of discarding calls in one body; generated by tools/dev/mk_flag_drops.py and
# read through by hand).  A flag counts as used when `.1` of the call's destination is read anywhere in the body or
# the whole tuple is copied / moved / returned.  Keys carry no positions or widths.

RE_OVF_CALL = re.compile(r"^        (_\d+) = (.*?)(overflowing_\w+)(?:::<.*?>)?\((.*)\) -> ")
FLAG_TABLE = os.path.join(C.VERIF, "tables", "flag_drops.json")
FLAG_OWNER = (("from_str", "C08"), ("display", "C09"), ("macros_round", "C06"), ("cmp", "C03"), ("transcendental", "C12"),
              ("wrapping", "C18"), ("traits", "C04"), ("int_helper", "C04"), ("float_helper", "C04"), ("convert", "C04"),
              ("helpers", "C04"))


def _norm_mir_fn(name):
    n = re.sub(r"<impl at [^>]*?src/(\w+)\.rs:[^>]*>", r"<impl \1>", name)
    n = re.sub(r"\bFixed[IU](8|16|32|64|128)\b", "FixedN", n)
    n = re.sub(r"\b[iu](8|16|32|64|128|size)\b", "intN", n)
    return n


def _flag_owner(fn_key, meth):
    """the property whose overflow verdicts the function serves: by source module, the arithmetic macros by
    operation"""
    for mod, pid in FLAG_OWNER:
        if fn_key.startswith(mod + "::") or ("<impl %s>" % mod) in fn_key:
            return pid
    what = fn_key.rsplit("::", 1)[-1] + " " + meth
    if re.search(r"ceil|floor|round", what):
        return "C06"
    if re.search(r"euclid|rem", what):
        return "C07"
    return "C02"


def flag_drops(fns):
    """-> {(fn key, callee): max number of flag-discarding calls in one body}, number of calls seen"""
    out = {}
    ncalls = 0
    for f in fns:
        lines = [l for b in f.order for l in f.blocks[b]]
        text = "\n".join(lines)
        per = {}
        for l in lines:
            m = RE_OVF_CALL.match(l)
            if not m:
                continue
            dst, meth = m.group(1), m.group(3)
            ncalls += 1
            if dst == "_0":
                continue
            d = re.escape(dst)
            if re.search(r"\(%s\.1: bool\)" % d, text):
                continue
            if re.search(r"(?:move|copy) %s(?![\w.])" % d, text) or re.search(r"&(?:mut )?%s(?![\w.])" % d, text):
                continue
            per[meth] = per.get(meth, 0) + 1
        key = _norm_mir_fn(f.name)
        if f.file and not key.startswith(f.file + "::") and ("<impl %s>" % f.file) not in key:
            key = f.file + "::" + key                  # free functions carry no module path in MIR names
        for meth, n in per.items():
            k = (key, meth)
            out[k] = max(out.get(k, 0), n)
    return out, ncalls


def s_flag(report, label, pid):
    from .run_a import EngineError
    fns = parse_mir(mir_text())
    drops, ncalls = flag_drops(fns)
    table = C.load_json(FLAG_TABLE)
    allowed = {(e["fn"], e["callee"]): e["max"] for e in table["entries"]}
    if ncalls < table["calls_floor"]:
        raise EngineError("S-flag: only %d overflowing_* calls found in the MIR, floor %d" % (ncalls, table["calls_floor"]))
    # positive control: a planted body that discards one flag and uses another
    planted = MirFn("from_str::planted", "_1: u8", "u8")
    planted.order = ["bb0"]
    planted.blocks["bb0"] = ["        _3 = core::num::<impl u8>::overflowing_add(copy _1, const 1_u8) -> [return: bb1, unwind continue];",
                             "        _4 = copy (_3.0: u8);",
                             "        _5 = core::num::<impl u8>::overflowing_mul(copy _4, const 10_u8) -> [return: bb2, unwind continue];",
                             "        _6 = copy (_5.1: bool);"]
    pd, _n = flag_drops([planted])
    if pd != {("from_str::planted", "overflowing_add"): 1}:
        raise EngineError("S-flag self-test failed: %r" % (pd,))
    mine = 0
    bad = 0
    for (fn, meth), n in sorted(drops.items()):
        owner = _flag_owner(fn, meth)
        if owner != pid:
            continue
        mine += 1
        if n > allowed.get((fn, meth), 0):
            bad += 1
            report.violation("S-flag:" + label, "S-flag|%s|%s" % (fn, meth),
                             "the overflow flag of `%s` is discarded in `%s` (%d discarding call(s) in one body, %d on the "
                             "pinned tree): an overflow verdict assembled from this flag can no longer be exact"
                             % (meth, fn, n, allowed.get((fn, meth), 0)), {"fn": fn, "callee": meth, "drops": n})
    return {"engine": "S-flag (MIR: no overflowing_* call discards its flag beyond the reviewed table)",
            "overflowing_calls_seen": ncalls, "discarding_sites_of_this_property": mine, "violating": bad,
            "positive_control": "found", "samples": [{"fn": k[0], "callee": k[1], "drops": v} for k, v in sorted(drops.items())[:3]]}
