"""Builds harness crates to post-LTO LLVM IR with the real compiler.

One cargo workspace per build configuration lives at a fixed path under
/verif/.work/ws/<cfg>; its crates are rewritten for each request, cargo builds
them in parallel, and the resulting `.ll` files are moved to the per-source
hash directory with a stamp of everything that went into them."""
import json
import os
import re
import shutil
import time

from . import common as C
from . import gen as G

CONFIGS = {
    # checks on: the profile under which the library may panic the most
    "on": {"debug_assertions": True, "overflow_checks": True,
           # developer knob (tools/dev/sweep_e.py --stress): registry entries must survive other inlining
           # thresholds, so that optimiser-fragile obligations are never registered; unset in normal runs
           "rustflags": ("-C llvm-args=-inline-threshold=%s" % os.environ["VERIF_INLINE_THRESHOLD"])
           if os.environ.get("VERIF_INLINE_THRESHOLD") else ""},
    # checks off: release / Wasm runtime profile
    "off": {"debug_assertions": False, "overflow_checks": False, "rustflags": ""},
    # loop analysis: checks on, but no transformation that changes trip counts
    "loops": {"debug_assertions": True, "overflow_checks": True,
              "rustflags": "-C no-vectorize-loops -C llvm-args=-unroll-threshold=0 "
                           "-C llvm-args=-unroll-allow-partial=false "
                           "-C llvm-args=-unroll-runtime=false "
                           "-C llvm-args=-unroll-allow-peeling=false "
                           "-C llvm-args=-replexitval=never"},
}

WRAPPER = os.path.join(C.VERIF, "tools", "emit_wrapper.sh")


def _ws_dir(cfg):
    return os.path.join(C.WORK, "ws", cfg)


def _target_dir(cfg):
    return os.path.join(C.WORK, "target-" + cfg)


def _write_if_changed(path, text):
    try:
        with open(path) as fh:
            if fh.read() == text:
                return False
    except FileNotFoundError:
        pass
    os.makedirs(os.path.dirname(path), exist_ok=True)
    with open(path, "w") as fh:
        fh.write(text)
    return True


def _root_toml(cfg):
    c = CONFIGS[cfg]
    return """[workspace]
members = ["crates/*"]
resolver = "2"

[profile.release]
opt-level = 3
lto = "fat"
codegen-units = 1
debug = 1
debug-assertions = %s
overflow-checks = %s
panic = "abort"
incremental = false
""" % (str(c["debug_assertions"]).lower(), str(c["overflow_checks"]).lower())


def _crate_toml(name, deps="", features=None):
    feat = (", features = [%s]" % ", ".join('"%s"' % f for f in features)) if features else ""
    return """[package]
name = "%s"
version = "0.0.0"
edition = "2021"

[lib]
crate-type = ["cdylib"]
path = "src/lib.rs"

[dependencies]
substrate-fixed = { path = "%s"%s }
%s""" % (name, C.REPO, feat, deps)


class Crate:
    def __init__(self, name, roots, extra_code="", header=None):
        self.name = name
        self.roots = list(roots)
        self.extra_code = extra_code
        self.header = header if header is not None else G.HEADER

    def text(self, dropped=()):
        parts = [self.header, self.extra_code]
        self.line_index = []
        line = sum(p.count("\n") for p in parts) + 1
        for r in self.roots:
            if r.sym in dropped:
                continue
            n = r.code.count("\n")
            self.line_index.append((line, line + n - 1, r.sym))
            parts.append(r.code)
            line += n
        return "".join(parts)

    def sym_at(self, line):
        for a, b, s in self.line_index:
            if a <= line <= b:
                return s
        return None


def ll_path(cfg, crate_name):
    return os.path.join(C.hash_dir(), "ll", cfg, crate_name + ".ll")


def meta_path(cfg, crate_name):
    return os.path.join(C.hash_dir(), "ll", cfg, crate_name + ".meta.json")


def build(cfg, crates, max_retries=4):
    """Ensures an up-to-date `.ll` exists for each crate; returns
    {crate name: {"ll": path, "dropped": {sym: reason}}}."""
    res = {}
    todo = []
    for cr in crates:
        stamp = C.text_hash(C.source_hash(), cfg, json.dumps(CONFIGS[cfg], sort_keys=True), cr.text())
        cr.stamp = stamp
        p = ll_path(cfg, cr.name)
        if C.stamp_ok(p, stamp):
            meta = C.load_json(meta_path(cfg, cr.name), default={"dropped": {}})
            res[cr.name] = {"ll": p, "dropped": meta.get("dropped", {})}
        else:
            todo.append(cr)
    if not todo:
        return res
    with C.Lock("build-" + cfg):
        ws = _ws_dir(cfg)
        cdir = os.path.join(ws, "crates")
        os.makedirs(cdir, exist_ok=True)
        wanted = {cr.name for cr in todo}
        for d in os.listdir(cdir):
            if d not in wanted:
                shutil.rmtree(os.path.join(cdir, d), ignore_errors=True)
        _write_if_changed(os.path.join(ws, "Cargo.toml"), _root_toml(cfg))
        # the lock file of the repository pins every dependency version
        lock_src = os.path.join(C.REPO, "Cargo.lock")
        lock_dst = os.path.join(ws, "Cargo.lock")
        seed_lock = os.path.join(ws, ".lock-seed")
        if os.path.isfile(lock_src):
            with open(lock_src) as fh:
                ltxt = fh.read()
            if _write_if_changed(seed_lock, ltxt) or not os.path.isfile(lock_dst):
                shutil.copyfile(lock_src, lock_dst)
        dropped = {cr.name: {} for cr in todo}
        for attempt in range(max_retries + 1):
            for cr in todo:
                d = os.path.join(cdir, cr.name)
                _write_if_changed(os.path.join(d, "Cargo.toml"), _crate_toml(cr.name, getattr(cr, "deps", ""), getattr(cr, "features", None)))
                _write_if_changed(os.path.join(d, "src", "lib.rs"), cr.text(dropped[cr.name]))
            env = {"CARGO_TARGET_DIR": _target_dir(cfg),
                   "RUSTC_WORKSPACE_WRAPPER": WRAPPER,
                   "RUSTFLAGS": ("-Awarnings " + CONFIGS[cfg]["rustflags"]).strip()}
            t0 = time.time()
            C.log("[build:%s] cargo build of %d crate(s), %d roots (attempt %d) ..." % (
                cfg, len(todo), sum(len(cr.roots) - len(dropped[cr.name]) for cr in todo), attempt + 1))
            p = C.run(["cargo", "build", "--release", "--offline", "--message-format=json", "--keep-going",
                       "-j", str(os.cpu_count() or 8)],
                      cwd=ws, env=env, check=False)
            C.log("[build:%s] cargo finished in %.1fs (exit %d)" % (cfg, time.time() - t0, p.returncode))
            if p.returncode == 0:
                break
            nerr = _collect_errors(p.stdout, todo, dropped)
            if nerr == 0 or attempt == max_retries:
                C.log(p.stderr[-6000:])
                raise RuntimeError("harness build failed (cfg=%s) and no root could be blamed" % cfg)
        tdeps = os.path.join(_target_dir(cfg), "release", "deps")
        missing = [cr for cr in todo if not os.path.isfile(os.path.join(tdeps, cr.name + ".ll"))]
        if missing:
            # cargo considered the crate fresh but its IR is gone: force a rebuild
            for cr in missing:
                os.utime(os.path.join(cdir, cr.name, "src", "lib.rs"), None)
            C.log("[build:%s] rebuilding %d crate(s) whose IR is missing" % (cfg, len(missing)))
            C.run(["cargo", "build", "--release", "--offline", "--keep-going", "-j", str(os.cpu_count() or 8)],
                  cwd=ws, env=env)
        for cr in todo:
            src = os.path.join(tdeps, cr.name + ".ll")
            if not os.path.isfile(src):
                raise RuntimeError("no .ll produced for " + cr.name)
            dst = ll_path(cfg, cr.name)
            os.makedirs(os.path.dirname(dst), exist_ok=True)
            shutil.copyfile(src, dst)
            C.save_json(meta_path(cfg, cr.name), {"dropped": dropped[cr.name]})
            C.write_stamp(dst, cr.stamp)
            res[cr.name] = {"ll": dst, "dropped": dropped[cr.name]}
    return res


def _collect_errors(stdout, crates, dropped):
    by_name = {cr.name: cr for cr in crates}
    n = 0
    for line in stdout.splitlines():
        if not line.startswith("{"):
            continue
        try:
            msg = json.loads(line)
        except ValueError:
            continue
        if msg.get("reason") != "compiler-message":
            continue
        m = msg["message"]
        if m.get("level") != "error":
            continue
        tgt = msg.get("target", {}).get("name", "")
        cr = by_name.get(tgt)
        if cr is None:
            continue
        for sp in m.get("spans", []):
            if not sp.get("is_primary"):
                continue
            sym = cr.sym_at(sp["line_start"])
            if sym and sym not in dropped[cr.name]:
                dropped[cr.name][sym] = (m.get("code") or {}).get("code", "") + " " + m.get("message", "")[:200]
                n += 1
    return n
