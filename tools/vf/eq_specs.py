"""Engine E obligations: pairs (a = API under test, b = sibling or exact
bit-level specification) with identical signatures.

A *class* is a family + item without the layout (e.g. `E-wrap|op_Add_v_v_self`);
an *obligation* is a class at one layout.  Specifications are a few lines over
the raw bits using primitive integer operations in a type wide enough to be
exact, or the sibling operation the property names."""
import re

from . import api as A
from . import gen as G


class Pair:
    __slots__ = ("cls", "layout", "params", "ret", "a", "b", "family", "expect", "alg")

    def __init__(self, family, item, layout, params, ret, a, b, expect="equal", alg=None):
        self.alg = alg          # in-tool specification of engine_e3 (the `b` side then repeats `a`)
        self.family = family
        self.cls = family + "|" + item
        self.layout = layout
        self.params = params
        self.ret = ret
        self.a = a
        self.b = b
        self.expect = expect

    @property
    def oid(self):
        return self.cls + "@" + self.layout


def wide(l):
    """double-width integer type, or None for 128-bit"""
    if l.width >= 128:
        return None
    return "%s%d" % ("i" if l.signed else "u", l.width * 2)


def mask_consts(l):
    n, f = l.width, l.frac
    ity = l.inner
    frac_mask = "(((1 as u128) << %d) - 1) as %s" % (f, ity) if f < 128 else "(!0u128) as %s" % ity
    if f == 0:
        frac_mask = "0 as %s" % ity
    int_mask = "!(%s)" % frac_mask
    return frac_mask, int_mask


def _num_view(name):
    """(signed, width, frac, is_fixed) of a fixed alias or primitive integer name, None for floats"""
    m = re.match(r"^([IU])(\d+)F(\d+)$", name)
    if m:
        return (m.group(1) == "I", int(m.group(2)) + int(m.group(3)), int(m.group(3)), True)
    m = re.match(r"^([iu])(\d+)$", name)
    if m:
        return (m.group(1) == "i", int(m.group(2)), 0, False)
    return None


def _halves(what, item, ps, ret, bits, dummy, a, b):
    """the same obligation split at the sign of the source: each half is the pair guarded by an early return of
    a fixed dummy on the other half, so both halves together decide the pair for every source value.  Under the
    guard LLVM folds the library's count of redundant sign bits into a range test, which the unsplit pair keeps
    on two paths."""
    out = []
    for tag, g in (("nonneg", "%s < 0" % bits), ("neg", "%s >= 0" % bits)):
        pre = "if %s { return %s; } " % (g, dummy)
        out.append(Pair("E-conv", "%s_%s" % (what, tag), item, ps, ret, "{ %s%s }" % (pre, a), "{ %s%s }" % (pre, b)))
    return out


def fits_expr(src_signed, bits, sh, dst_signed, dw):
    """Rust boolean: the exact value `bits * 2^sh`, rounded toward minus infinity, lies in the range of a
    `dw`-bit destination.  `bits` is an expression of a primitive integer type (at most 128 bits)."""
    big = "i128" if src_signed else "u128"
    if sh <= 0:
        w = "((%s as %s) >> %d)" % (bits, big, min(-sh, 127))
        if -sh >= 128:
            w = "(%s >> 1)" % w
        k = dw - 1 if dst_signed else dw              # value bits of the destination
        if src_signed:
            lo = ("-(1i128 << %d)" % k if k < 127 else "i128::MIN") if dst_signed else "0i128"
            hi = "((1i128 << %d) - 1)" % k if k < 127 else "i128::MAX"
        else:
            lo = "0u128"
            hi = "((1u128 << %d) - 1)" % k if k < 128 else "u128::MAX"
        return "{ let w = %s; %s <= w && w <= %s }" % (w, lo, hi)
    k = (dw - 1 if dst_signed else dw) - sh           # value bits left for the source's bits
    b = "(%s as %s)" % (bits, big)
    if k <= 0:
        # only 0 fits -- and -1 * 2^sh = the minimum when exactly the sign bit is left
        if dst_signed and src_signed and k == 0:
            return "{ let w = %s; -1i128 <= w && w <= 0i128 }" % b
        return "(%s == 0)" % b
    if src_signed:
        lo = ("-(1i128 << %d)" % k if k < 127 else "i128::MIN") if dst_signed else "0i128"
        hi = "((1i128 << %d) - 1)" % k if k < 127 else "i128::MAX"
    else:
        lo = "0u128"
        hi = "((1u128 << %d) - 1)" % k if k < 128 else "u128::MAX"
    return "{ let w = %s; %s <= w && w <= %s }" % (b, lo, hi)


class Specs:
    def __init__(self, api):
        self.api = api
        self.gen = G.Generator(api)

    # ------------------------------------------------------------------ E-wrap
    def wrap(self, lay, full=True):
        out = []
        L = lay.name
        W = "Wrapping<%s>" % L
        nts = ["i8", "u64", "i128", "f32", "f64", "bool", "I16F16", "U0F32"]
        roots = self.gen.wrapping_inherent_roots(lay, num_types=nts)
        if full:
            roots += self.gen.op_roots(lay, struct="Wrapping")
        else:
            roots += self.gen.op_roots(lay, struct="Wrapping", forms="value", shift_types=("i32", "u32", "u128", "i8"))
        roots += self.gen.fmt_roots(lay, wrapping=True)
        roots += self.gen.misc_trait_roots(lay, wrapping=True)
        for r in roots:
            m = re.match(r"^#\[no_mangle\] #\[inline\(never\)\]\npub fn (\w+)\((.*)\) -> (.*?) \{ (.*) \}\n$", r.code, re.S)
            if not m:
                continue
            params, ret, body = m.group(2), m.group(3), m.group(4)
            guard = ""
            gm = re.match(r"^(if .*? \{ return None; \}) Some\((.*)\)$", body, re.S)
            if gm:
                guard, call = gm.group(1) + " ", gm.group(2)
            else:
                call = body
            spec = self._wrap_spec(r, lay)
            if spec is None:
                continue
            if guard:
                a_body = "%sSome(%s)" % (guard, call)
                b_body = "%sSome(%s)" % (guard, spec)
            else:
                a_body, b_body = call, spec
            item = r.sym.split("__", 2)[2]
            out.append(Pair("E-wrap", item, L, params, ret, a_body, b_body))
        # Sum / Product over iterators of fixed length 0..3 (by value and by reference): with a constant length the
        # fold is unrolled, so the pair is loop-free; the specification is the left-to-right chain of wrapping
        # operations, the empty sum is 0 and the empty product is 1 reduced modulo 2^width
        ps3 = "a0: %s, a1: %s, a2: %s" % (W, W, W)
        for tr, op, unit in (("Sum", "wrapping_add", "<%s>::from_bits(0)" % L),
                             ("Product", "wrapping_mul", "<%s>::wrapping_from_num(1)" % L)):
            m = tr.lower()
            for n in range(4):
                xs = ", ".join("a%d" % i for i in range(n))
                spec = unit if n == 0 else "a0.0"
                for i in range(1, n):
                    spec = "%s.%s(a%d.0)" % (spec, op, i)
                use = " ".join("let _ = a%d;" % i for i in range(n, 3))
                out.append(Pair("E-wrap", "iter_%s_fixed%d_v" % (tr, n), L, ps3, W,
                                "{ %s let xs: [%s; %d] = [%s]; xs.iter().copied().%s::<%s>() }" % (use, W, n, xs, m, W),
                                "{ %s Wrapping(%s) }" % (use, spec)))
                out.append(Pair("E-wrap", "iter_%s_fixed%d_r" % (tr, n), L, ps3, W,
                                "{ %s let xs: [%s; %d] = [%s]; xs.iter().%s::<%s>() }" % (use, W, n, xs, m, W),
                                "{ %s Wrapping(%s) }" % (use, spec)))
        return out

    def _wrap_spec(self, r, lay):
        L = lay.name
        if r.kind == "op":
            tr, self_ty, rhs = r.extra["trait"], r.extra["self"], r.extra["rhs"]
            x = "(*a0).0" if self_ty.startswith("&") else "a0.0"
            is_assign = tr.endswith("Assign")
            base = tr[:-6] if is_assign else tr
            if rhs is None:
                e = {"Neg": "%s.wrapping_neg()" % x, "Not": "!%s" % x}[base]
                return "Wrapping(%s)" % e
            y = "(*a1)" if rhs.startswith("&") else "a1"
            rt = rhs.lstrip("&")
            int_rhs = rt in A.INT_TYPES
            if not int_rhs:
                y = y + ".0"
            if base in ("Shl", "Shr"):
                e = "%s.wrapping_%s(%s as u32)" % (x, base.lower(), y)
            elif int_rhs:
                e = {"Mul": "%s.wrapping_mul_int(%s)", "Div": "%s.wrapping_div_int(%s)",
                     "Rem": "%s.wrapping_rem_int(%s)"}.get(base)
                if e is None:
                    return None
                e = e % (x, y)
            else:
                e = {"Add": "%s.wrapping_add(%s)", "Sub": "%s.wrapping_sub(%s)", "Mul": "%s.wrapping_mul(%s)",
                     "Div": "%s.wrapping_div(%s)", "Rem": "(%s %% %s)", "BitAnd": "(%s & %s)",
                     "BitOr": "(%s | %s)", "BitXor": "(%s ^ %s)"}.get(base)
                if e is None:
                    return None
                e = e % (x, y)
            if is_assign:
                return "{ let v = %s; a0.0 = v; }" % e.replace(x, "a0.0")
            return "Wrapping(%s)" % e
        if r.kind == "iter":
            by_ref = r.api.endswith("[r]")
            it = "a0.iter()" if by_ref else "a0.iter().copied()"
            d = "(*x)" if by_ref else "x"
            if r.base == "sum":
                return ("%s.fold(Wrapping(<%s>::from_bits(0)), |acc, x| Wrapping(acc.0.wrapping_add(%s.0)))" % (it, L, d))
            return ("{ let mut it = %s; match it.next() { None => Wrapping(<%s>::wrapping_from_num(1)), "
                    "Some(f) => it.fold(%s, |acc, x| Wrapping(acc.0.wrapping_mul(%s.0))) } }"
                    % (it, L, "*f" if by_ref else "f", d))
        if r.kind == "fmt":
            tr = r.api.split("::")[0]
            if tr == "Debug":
                return None       # derived Debug prints the wrapper name
            return "<%s as core::fmt::%s>::fmt(&a0.0, a1)" % (L, tr)
        if r.kind == "trait":
            if r.base == "from_str":
                return "<%s>::wrapping_from_str(a0).map(Wrapping)" % L
            if r.base == "hash":
                return "<%s as core::hash::Hash>::hash(&a0.0, a1)" % L
            if r.base == "cmp":
                return "<%s as core::cmp::Ord>::cmp(&a0.0, &a1.0)" % L
            if r.base == "from":
                return "Wrapping(a0)"
            return None
        # inherent
        n = r.api
        T = r.targ
        simple0 = {"min_value": "Wrapping(<%s>::min_value())" % L, "max_value": "Wrapping(<%s>::max_value())" % L,
                   "int_nbits": "<%s>::int_nbits()" % L, "frac_nbits": "<%s>::frac_nbits()" % L}
        if n in simple0:
            return simple0[n]
        if n == "from_bits":
            return "Wrapping(<%s>::from_bits(a0))" % L
        if n == "to_bits":
            return "a0.0.to_bits()"
        if n == "from_num":
            return "Wrapping(<%s>::wrapping_from_num::<%s>(a0))" % (L, T)
        if n == "to_num":
            return "a0.0.wrapping_to_num::<%s>()" % T
        if n.startswith("from_str_"):
            return "<%s>::wrapping_%s(a0).map(Wrapping)" % (L, n)
        if n in ("int", "frac", "round_to_zero"):
            return "Wrapping(a0.0.%s())" % n
        if n in ("ceil", "floor", "round", "round_ties_to_even", "abs"):
            return "Wrapping(a0.0.wrapping_%s())" % n
        if n in ("count_ones", "count_zeros", "leading_zeros", "trailing_zeros", "is_positive", "is_negative",
                 "is_power_of_two"):
            return "a0.0.%s()" % n
        if n in ("rotate_left", "rotate_right"):
            return "Wrapping(a0.0.%s(a1))" % n
        if n == "div_euclid":
            return "Wrapping(a0.0.wrapping_div_euclid(a1.0))"
        if n == "rem_euclid":
            return "Wrapping(a0.0.rem_euclid(a1.0))"
        if n == "div_euclid_int":
            return "Wrapping(a0.0.wrapping_div_euclid_int(a1))"
        if n == "rem_euclid_int":
            return "Wrapping(a0.0.wrapping_rem_euclid_int(a1))"
        if n == "signum":
            return ("{ let b = a0.0.to_bits(); Wrapping(if b > 0 { <%s>::wrapping_from_num(1) } else if b < 0 "
                    "{ <%s>::wrapping_from_num(-1) } else { <%s>::from_bits(0) }) }" % (L, L, L))
        if n == "next_power_of_two":
            return "Wrapping(a0.0.checked_next_power_of_two().unwrap_or(<%s>::from_bits(0)))" % L
        return None

    # ------------------------------------------------------------------ E-pol
    def policy(self, lay, num_types=("i32", "u8", "i128", "I16F16", "U0F32")):
        """checked_X == Some/None of overflowing_X (None also for a zero
        divisor); wrapping_X == overflowing_X.0 -- for every X the API offers
        in those three forms."""
        out = []
        L = lay.name
        methods = {}
        for im in self.api.impls[lay.struct]:
            if im.trait is not None:
                continue
            for it in im.raw["items"]:
                f = self.api.idx.get(str(it))
                if f is not None and "function" in f["inner"] and f["visibility"] == "public":
                    methods[f["name"]] = (A.Method(f), G.doc_facts(f.get("docs")))
        for name, (m, facts) in sorted(methods.items()):
            if not name.startswith("overflowing_"):
                continue
            X = name[len("overflowing_"):]
            if X.startswith("from_str"):
                continue
            targs = [None]
            if m.generics:
                impls = set()
                for b in m.generic_bounds().get(m.generics[0], []):
                    impls = self.api.implementors(b)
                targs = [t for t in num_types if G.Generator._type_head(t) in impls and t != L]
            for T in targs:
                subst = {"Self": L, "Frac": lay}
                if T:
                    subst[m.generics[0]] = T
                try:
                    params = []
                    for n, (pn, pt) in enumerate(m.inputs):
                        params.append(("a%d" % n, L if pn == "self" else G.render(pt, subst)))
                except G.Mismatch:
                    continue
                tf = ("::<%s>" % T) if T else ""
                args = ", ".join(p[0] for p in params)
                ps = ", ".join("%s: %s" % p for p in params)
                o = "<%s>::overflowing_%s%s(%s)" % (L, X, tf, args)
                vty = L
                if X == "to_num":
                    vty = T
                zero = ""
                if facts["zero"] and len(params) >= 2:
                    d = params[1][1]
                    zero = "if a1 == 0 { return None; } " if d in A.INT_TYPES else "if a1.to_bits() == 0 { return None; } "
                suffix = ("__" + G.sanitize(T)) if T else ""
                if ("checked_" + X) in methods:
                    a = "<%s>::checked_%s%s(%s)" % (L, X, tf, args)
                    b = "{ %slet (v, o) = %s; if o { None } else { Some(v) } }" % (zero, o)
                    out.append(Pair("E-pol", "checked_" + X + suffix, L, ps, "Option<%s>" % vty, a, b))
                if ("wrapping_" + X) in methods:
                    a = "<%s>::wrapping_%s%s(%s)" % (L, X, tf, args)
                    b = "%s.0" % o
                    if zero:
                        a = "{ %sSome(%s) }" % (zero, a)
                        b = "{ %sSome(%s) }" % (zero, b)
                        out.append(Pair("E-pol", "wrapping_" + X + suffix, L, ps, "Option<%s>" % vty, a, b))
                    else:
                        out.append(Pair("E-pol", "wrapping_" + X + suffix, L, ps, vty, a, b))
                # unsigned saturation has one side only: clamp to the side the exact result lies on
                if ("saturating_" + X) in methods and not lay.signed and X in ("add", "sub", "mul_int", "neg"):
                    side = {"add": "max_value", "mul_int": "max_value", "sub": "min_value", "neg": "min_value"}[X]
                    a = "<%s>::saturating_%s%s(%s)" % (L, X, tf, args)
                    b = "{ let (v, o) = %s; if o { <%s>::%s() } else { v } }" % (o, L, side)
                    out.append(Pair("E-sat", "saturating_" + X, L, ps, vty, a, b))
            # plain operation, where one exists without a policy prefix, wraps like overflowing_X.0
            # only when overflow cannot happen: not registered here.
        # saturating rounding: the bound on the value's side (a negative value can only overflow downward)
        ps1 = "a0: %s" % L
        # ceil can only overflow upward (its result is >= the value), floor only downward; round and
        # round_ties_to_even saturate to the bound on the value's side
        for X, side in (("ceil", "max"), ("floor", "min"), ("round", "sign"), ("round_ties_to_even", "sign")):
            if ("saturating_" + X) in methods and ("overflowing_" + X) in methods:
                if side == "sign":
                    b = ("{ let (v, o) = <%s>::overflowing_%s(a0); if !o { v } else if a0.to_bits() > 0 "
                         "{ <%s>::max_value() } else { <%s>::min_value() } }" % (L, X, L, L))
                else:
                    bound = "min_value" if (side == "min") else "max_value"
                    b = "{ let (v, o) = <%s>::overflowing_%s(a0); if o { <%s>::%s() } else { v } }" % (L, X, L, bound)
                out.append(Pair("E-sat", "saturating_" + X, L, ps1, L, "<%s>::saturating_%s(a0)" % (L, X), b))
        # products and quotients saturate to min when the operand signs differ, else to max
        for X, rhs_fixed, div in (("mul", True, False), ("div", True, True), ("mul_int", False, False),
                                  ("div_euclid", True, True)):
            if ("saturating_" + X) not in methods or ("overflowing_" + X) not in methods:
                continue
            if X == "mul_int" and not lay.signed:
                continue          # registered above in its one-sided form
            rty = L if rhs_fixed else lay.inner
            ps2 = "a0: %s, a1: %s" % (L, rty)
            rb = "a1.to_bits()" if rhs_fixed else "a1"
            z = ("if %s == 0 { return None; } " % rb) if div else ""
            if lay.signed:
                side = "if (a0.to_bits() < 0) != (%s < 0) { <%s>::min_value() } else { <%s>::max_value() }" % (rb, L, L)
            else:
                side = "<%s>::max_value()" % L
            a = "<%s>::saturating_%s(a0, a1)" % (L, X)
            b = "{ let (v, o) = <%s>::overflowing_%s(a0, a1); if !o { v } else { %s } }" % (L, X, side)
            if X == "mul_int" and lay.signed:
                ity = lay.inner
                b = ("{ let (v, o) = <%s>::overflowing_mul_int(a0, a1); let s = bitsel!(%s, (a0.to_bits() < 0) != (a1 < 0), %s::MIN, %s::MAX); "
                     "<%s>::from_bits(bitsel!(%s, !o, v.to_bits(), s)) }" % (L, ity, ity, ity, L, ity))
            if div:
                out.append(Pair("E-sat", "saturating_" + X, L, ps2, "Option<%s>" % L,
                                "{ %sSome(%s) }" % (z, a), "{ %sSome(%s) }" % (z, b)))
            else:
                out.append(Pair("E-sat", "saturating_" + X, L, ps2, L, a, b))
            # the same link through the checked form (the Euclidean overflowing_ and checked_ forms are implemented
            # separately and the pair above normalises nowhere): the checked value, else the bound on the quotient's
            # side -- positive exactly when both operands are positive or both negative (a zero dividend never overflows)
            if X in ("div", "div_euclid", "mul") and ("checked_" + X) in methods:
                if lay.signed:
                    side2 = "if (a0.to_bits() > 0) == (%s > 0) { <%s>::max_value() } else { <%s>::min_value() }" % (rb, L, L)
                else:
                    side2 = "<%s>::max_value()" % L
                b2 = "match <%s>::checked_%s(a0, a1) { Some(v) => v, None => { %s } }" % (L, X, side2)
                if div:
                    out.append(Pair("E-sat", "saturating_%s_vs_checked" % X, L, ps2, "Option<%s>" % L,
                                    "{ %sSome(%s) }" % (z, a), "{ %sSome(%s) }" % (z, b2)))
                else:
                    out.append(Pair("E-sat", "saturating_%s_vs_checked" % X, L, ps2, L, a, b2))
        # signed saturating_sub / neg / abs: side follows from the operands' signs
        if lay.signed:
            ps = "a0: %s, a1: %s" % (L, L)
            ity = lay.inner
            # the exact difference is negative iff a0 < a1; a sum can only overflow when both operands have the
            # sign of the exact sum; written with the bit-mask select
            out.append(Pair("E-sat", "saturating_sub", L, ps, L, "<%s>::saturating_sub(a0, a1)" % L,
                            "{ let (v, o) = <%s>::overflowing_sub(a0, a1); let s = bitsel!(%s, a0.to_bits() < a1.to_bits(), %s::MIN, %s::MAX); "
                            "<%s>::from_bits(bitsel!(%s, !o, v.to_bits(), s)) }" % (L, ity, ity, ity, L, ity)))
            out.append(Pair("E-sat", "saturating_add", L, ps, L, "<%s>::saturating_add(a0, a1)" % L,
                            "{ let (v, o) = <%s>::overflowing_add(a0, a1); let s = bitsel!(%s, a0.to_bits() < 0, %s::MIN, %s::MAX); "
                            "<%s>::from_bits(bitsel!(%s, !o, v.to_bits(), s)) }" % (L, ity, ity, ity, L, ity)))
            ps1 = "a0: %s" % L
            out.append(Pair("E-sat", "saturating_neg", L, ps1, L, "<%s>::saturating_neg(a0)" % L,
                            "{ let (v, o) = <%s>::overflowing_neg(a0); if o { <%s>::max_value() } else { v } }" % (L, L)))
            out.append(Pair("E-sat", "saturating_abs", L, ps1, L, "<%s>::saturating_abs(a0)" % L,
                            "{ let (v, o) = <%s>::overflowing_abs(a0); if o { <%s>::max_value() } else { v } }" % (L, L)))
        return out

    # ------------------------------------------------------------------ E-mask
    def mask(self, lay):
        """int / frac / floor / ceil / round_to_zero / signs as mask arithmetic on the bits"""
        out = []
        L, n, f, ity = lay.name, lay.width, lay.frac, lay.inner
        uty = lay.uinner
        frac_mask, int_mask = mask_consts(lay)
        ps = "a0: %s" % L
        fb = "<%s>::from_bits" % L
        FM = "(%s)" % frac_mask
        IM = "(%s)" % int_mask
        unit = "(((1 as u128) << %d) as %s)" % (f, ity) if f < n else "(0 as %s)" % ity   # 2^f wraps to 0 at f = n
        if lay.signed and f == n - 1:
            unit = "(%s::MIN)" % ity
        out.append(Pair("E-mask", "int", L, ps, L, "a0.int()", "%s(a0.to_bits() & %s)" % (fb, IM)))
        out.append(Pair("E-mask", "frac", L, ps, L, "a0.frac()", "%s(a0.to_bits() & %s)" % (fb, FM)))
        out.append(Pair("E-mask", "wrapping_floor", L, ps, L, "a0.wrapping_floor()", "%s(a0.to_bits() & %s)" % (fb, IM)))
        # floor overflows exactly when the type has no integer bit and the value is negative
        ofl_floor = "(a0.to_bits() < 0)" if (lay.signed and lay.int_bits == 0) else "false"
        out.append(Pair("E-mask", "overflowing_floor", L, ps, "(%s, bool)" % L, "a0.overflowing_floor()",
                        "(%s(a0.to_bits() & %s), %s)" % (fb, IM, ofl_floor)))
        # The remaining specifications are the mathematical definitions as case analyses over
        # floor(x) = bits & INT_MASK, with the unit 2^f added modulo 2^n:
        #   ceil(x)  = floor(x) if frac(x) = 0 else floor(x) + 1
        #   round(x) = floor(x) if frac(x) < 1/2; a negative exact tie also goes to floor(x) (away from zero);
        #              otherwise floor(x) + 1
        #   round_ties_to_even(x) = floor(x) if frac(x) < 1/2, or on an exact tie with floor(x) even; else floor(x) + 1
        #   round_to_zero(x) = floor(x) for x >= 0, ceil(x) for x < 0
        W = wide(lay)
        let = "let b = a0.to_bits(); let i = b & %s; let fr = b & %s;" % (IM, FM)
        up = "i.wrapping_add(%s)" % unit
        ceil_v = "if fr == 0 { i } else { %s }" % up
        out.append(Pair("E-mask", "wrapping_ceil", L, ps, L, "a0.wrapping_ceil()",
                        "{ %s %s(%s) }" % (let, fb, ceil_v)))
        if lay.signed:
            out.append(Pair("E-mask", "round_to_zero", L, ps, L, "a0.round_to_zero()",
                            "{ %s %s(if b < 0 { %s } else { i }) }" % (let, fb, ceil_v)))
            out.append(Pair("E-mask", "is_negative", L, ps, "bool", "a0.is_negative()", "a0.to_bits() < 0"))
            out.append(Pair("E-mask", "is_positive", L, ps, "bool", "a0.is_positive()", "a0.to_bits() > 0"))
        else:
            out.append(Pair("E-mask", "round_to_zero", L, ps, L, "a0.round_to_zero()", "%s(a0.to_bits() & %s)" % (fb, IM)))
        round_v = even_v = None
        if f >= 1:
            half = "(((1 as u128) << %d) as %s)" % (f - 1, ity)
            if lay.signed:
                round_v = "if fr & %s == 0 { i } else if fr == %s && b < 0 { i } else { %s }" % (half, half, up)
            else:
                round_v = "if fr & %s == 0 { i } else { %s }" % (half, up)
            out.append(Pair("E-mask", "wrapping_round", L, ps, L, "a0.wrapping_round()",
                            "{ %s %s(%s) }" % (let, fb, round_v)))
            even_v = "if fr & %s == 0 { i } else if fr == %s && (i & %s) == 0 { i } else { %s }" % (half, half, unit, up)
            out.append(Pair("E-mask", "wrapping_round_ties_to_even", L, ps, L, "a0.wrapping_round_ties_to_even()",
                            "{ %s %s(%s) }" % (let, fb, even_v)))
        else:
            # no fraction bit: every value is an integer, both roundings are the identity
            out.append(Pair("E-mask", "wrapping_round", L, ps, L, "a0.wrapping_round()", "a0"))
            out.append(Pair("E-mask", "wrapping_round_ties_to_even", L, ps, L, "a0.wrapping_round_ties_to_even()", "a0"))
        # overflow flags: the same case analysis on (value, overflow) pairs.  FLOOR is (floor, false) except that
        # without integer bits the floor of a negative value (-1) is not representable; ADD is floor + 1 computed
        # exactly: the primitive's overflowing_add when the unit 2^f is representable, hand-derived for 0 and 1
        # integer bits (validated against exact rational rounding for every 8-bit layout and value at development time).
        ib = lay.int_bits
        FLOOR = "(i, %s)" % ("b < 0" if (lay.signed and ib == 0) else "false")
        if lay.signed:
            if ib >= 2:
                ADD = "i.overflowing_add(%s)" % unit
            elif ib == 1:
                ADD = "(i.wrapping_add(%s::MIN), i == 0)" % ity
            else:
                ADD = "(i, b >= 0)"
        else:
            ADD = "i.overflowing_add(%s)" % unit if ib >= 1 else "(i, true)"

        def vo(cases):
            # `cases` is a sequence of guarded early returns followed by the default
            return "{ %s let (v, o) = (|| -> (%s, bool) { %s })(); (%s(v), o) }" % (let, ity, cases, fb)
        rt = "(%s, bool)" % L
        out.append(Pair("E-mask", "overflowing_ceil", L, ps, rt, "a0.overflowing_ceil()",
                        vo("if fr == 0 { return %s; } %s" % (FLOOR, ADD))))
        if f >= 1:
            half = "(((1 as u128) << %d) as %s)" % (f - 1, ity)
            if lay.signed:
                rc = "if fr & %s == 0 { return %s; } if fr == %s && b < 0 { return %s; } %s" % (half, FLOOR, half, FLOOR, ADD)
            else:
                rc = "if fr & %s == 0 { return %s; } %s" % (half, FLOOR, ADD)
            out.append(Pair("E-mask", "overflowing_round", L, ps, rt, "a0.overflowing_round()", vo(rc)))
            if lay.signed and ib == 0:
                ec = "(i, false)"
            else:
                ec = "if fr & %s == 0 { return %s; } if fr == %s && (i & %s) == 0 { return %s; } %s" % (
                    half, FLOOR, half, unit, FLOOR, ADD)
            out.append(Pair("E-mask", "overflowing_round_ties_to_even", L, ps, rt,
                            "a0.overflowing_round_ties_to_even()", vo(ec)))
        else:
            out.append(Pair("E-mask", "overflowing_round", L, ps, rt, "a0.overflowing_round()", "(a0, false)"))
            out.append(Pair("E-mask", "overflowing_round_ties_to_even", L, ps, rt,
                            "a0.overflowing_round_ties_to_even()", "(a0, false)"))
        return out

    # ------------------------------------------------------------------ E-rem
    def rem(self, lay):
        out = []
        L, ity = lay.name, lay.inner
        ps = "a0: %s, a1: %s" % (L, L)
        fb = "<%s>::from_bits" % L
        out.append(Pair("E-rem", "checked_rem", L, ps, "Option<%s>" % L, "a0.checked_rem(a1)",
                        "{ if a1.to_bits() == 0 { None } else { Some(%s(a0.to_bits().wrapping_rem(a1.to_bits()))) } }" % fb))
        out.append(Pair("E-rem", "checked_rem_euclid", L, ps, "Option<%s>" % L, "a0.checked_rem_euclid(a1)",
                        "{ if a1.to_bits() == 0 { None } else { Some(%s(a0.to_bits().wrapping_rem_euclid(a1.to_bits()))) } }" % fb))
        out.append(Pair("E-rem", "op_rem", L, ps, "Option<%s>" % L,
                        "{ if a1.to_bits() == 0 { return None; } Some(a0 % a1) }",
                        "{ if a1.to_bits() == 0 { return None; } Some(%s(a0.to_bits().wrapping_rem(a1.to_bits()))) }" % fb))
        out.append(Pair("E-rem", "rem_euclid", L, ps, "Option<%s>" % L,
                        "{ if a1.to_bits() == 0 { return None; } Some(a0.rem_euclid(a1)) }",
                        "{ if a1.to_bits() == 0 { return None; } Some(%s(a0.to_bits().wrapping_rem_euclid(a1.to_bits()))) }" % fb))
        # remainders by a primitive integer n: the integer is the fixed-point number n * 2^f, which need not fit the
        # type; computed exactly in a 128-bit integer (widths up to 64: |n * 2^f| <= 2^127)
        if lay.width <= 64:
            big = "i128" if lay.signed else "u128"
            psi = "a0: %s, a1: %s" % (L, ity)
            d = "((a1 as %s) << %d)" % (big, lay.frac)
            r = "((a0.to_bits() as %s).wrapping_rem(%s))" % (big, d)
            re_ = "((a0.to_bits() as %s).wrapping_rem_euclid(%s))" % (big, d)
            out.append(Pair("E-rem", "checked_rem_int", L, psi, "Option<%s>" % L, "a0.checked_rem_int(a1)",
                            "{ if a1 == 0 { return None; } Some(%s(%s as %s)) }" % (fb, r, ity)))
            out.append(Pair("E-rem", "op_rem_int", L, psi, "Option<%s>" % L,
                            "{ if a1 == 0 { return None; } Some(a0 % a1) }",
                            "{ if a1 == 0 { return None; } Some(%s(%s as %s)) }" % (fb, r, ity)))
            nofit = "(r as %s as %s) != r" % (ity, big)
            out.append(Pair("E-rem", "checked_rem_euclid_int", L, psi, "Option<%s>" % L, "a0.checked_rem_euclid_int(a1)",
                            "{ if a1 == 0 { return None; } let r = %s; if %s { None } else { Some(%s(r as %s)) } }" % (re_, nofit, fb, ity)))
            out.append(Pair("E-rem", "overflowing_rem_euclid_int", L, psi, "Option<(%s, bool)>" % L,
                            "{ if a1 == 0 { return None; } Some(a0.overflowing_rem_euclid_int(a1)) }",
                            "{ if a1 == 0 { return None; } let r = %s; Some((%s(r as %s), %s)) }" % (re_, fb, ity, nofit)))
        return out

    # ------------------------------------------------------------------ E-div
    def div(self, lay):
        """quotient = trunc((a * 2^F) / b) in the double-width integer, where it is exact"""
        W = wide(lay)
        if W is None:
            return []
        out = []
        L, ity, f, n = lay.name, lay.inner, lay.frac, lay.width
        ps = "a0: %s, a1: %s" % (L, L)
        fb = "<%s>::from_bits" % L
        q = "(((a0.to_bits() as %s) << %d).wrapping_div(a1.to_bits() as %s))" % (W, f, W)
        out.append(Pair("E-div", "wrapping_div", L, ps, "Option<%s>" % L,
                        "{ if a1.to_bits() == 0 { return None; } Some(a0.wrapping_div(a1)) }",
                        "{ if a1.to_bits() == 0 { return None; } Some(%s(%s as %s)) }" % (fb, q, ity)))
        # "q does not fit": for signed types stated as "the discarded high half is not the sign extension of the
        # low half", for unsigned as "the high half is not zero" -- both obviously exact range tests
        if lay.signed:
            fits = "(q >> %d) != (if (q as %s) < 0 { -1 } else { 0 })" % (n, ity)
        else:
            fits = "(q as %s as %s) != q" % (ity, W)
        out.append(Pair("E-div", "overflowing_div", L, ps, "Option<(%s, bool)>" % L,
                        "{ if a1.to_bits() == 0 { return None; } Some(a0.overflowing_div(a1)) }",
                        "{ if a1.to_bits() == 0 { return None; } let q = %s; Some((%s(q as %s), %s)) }" % (q, fb, ity, fits)))
        # Euclidean quotient: the ratio of the values is the ratio of the bit patterns, so
        # q = bits(a).div_euclid(bits(b)) as integers, result = q * 2^F, all exact in the double-width type
        qe = "((a0.to_bits() as %s).div_euclid(a1.to_bits() as %s))" % (W, W)
        fits_e = "((r >> %d) != q) || ((r as %s as %s) != r)" % (f, ity, W)
        out.append(Pair("E-div", "wrapping_div_euclid", L, ps, "Option<%s>" % L,
                        "{ if a1.to_bits() == 0 { return None; } Some(a0.wrapping_div_euclid(a1)) }",
                        "{ if a1.to_bits() == 0 { return None; } let q = %s; Some(%s((q << %d) as %s)) }" % (qe, fb, f, ity)))
        out.append(Pair("E-div", "overflowing_div_euclid", L, ps, "Option<(%s, bool)>" % L,
                        "{ if a1.to_bits() == 0 { return None; } Some(a0.overflowing_div_euclid(a1)) }",
                        "{ if a1.to_bits() == 0 { return None; } let q = %s; let r = q << %d; Some((%s(r as %s), %s)) }"
                        % (qe, f, fb, ity, fits_e)))
        out.append(Pair("E-div", "checked_div_euclid", L, ps, "Option<%s>" % L, "a0.checked_div_euclid(a1)",
                        "{ if a1.to_bits() == 0 { return None; } let q = %s; let r = q << %d; if %s { None } else { Some(%s(r as %s)) } }"
                        % (qe, f, fits_e, fb, ity)))
        # multiplication: exact product in the double-width type, shifted toward minus infinity
        p = "(((a0.to_bits() as %s).wrapping_mul(a1.to_bits() as %s)) >> %d)" % (W, W, f)
        out.append(Pair("E-mul", "wrapping_mul", L, ps, L, "a0.wrapping_mul(a1)", "%s(%s as %s)" % (fb, p, ity)))
        # "the shifted product does not fit": a plain range test on the exact double-width value
        if lay.signed:
            mfits = "q < -(1 << %d) || q > (1 << %d) - 1" % (n - 1, n - 1)
        else:
            mfits = "q > (1 << %d) - 1" % n
        out.append(Pair("E-mul", "overflowing_mul", L, ps, "(%s, bool)" % L, "a0.overflowing_mul(a1)",
                        "{ let q: %s = %s; (%s(q as %s), %s) }" % (W, p, fb, ity, mfits)))
        return out

    # ------------------------------------------------------------------ E-alg
    def alg(self, lay):
        """128-bit multiplication against the bit slice [F, F+128) of the exact 256-bit product and the exact range
        test, by the limb algebra of engine_e3 (no Rust type can state that specification)"""
        out = []
        if lay.width != 128 or lay.frac == 0:
            return out
        L = lay.name
        ps = "a0: %s, a1: %s" % (L, L)
        spec = ("mul", lay.signed, lay.width, lay.frac)
        out.append(Pair("E-alg", "wrapping_mul_value", L, ps, L, "a0.wrapping_mul(a1)", "a0.wrapping_mul(a1)",
                        alg=spec + ("value",)))
        out.append(Pair("E-alg", "overflowing_mul_value", L, ps, "(%s, bool)" % L, "a0.overflowing_mul(a1)",
                        "a0.overflowing_mul(a1)", alg=spec + ("value",)))
        out.append(Pair("E-alg", "overflowing_mul_flag", L, ps, "(%s, bool)" % L, "a0.overflowing_mul(a1)",
                        "a0.overflowing_mul(a1)", alg=spec + ("flag",)))
        # controls: the same bodies against a wrong slice / a wrong threshold must not be accepted
        wrong = ("mul", lay.signed, lay.width, lay.frac - 1 if lay.frac > 1 else lay.frac + 1)
        out.append(Pair("E-alg", "CONTROL_wrong_slice", L, ps, L, "a0.wrapping_mul(a1)", "a0.wrapping_mul(a1)",
                        expect="different", alg=wrong + ("value",)))
        out.append(Pair("E-alg", "CONTROL_wrong_threshold", L, ps, "(%s, bool)" % L, "a0.overflowing_mul(a1)",
                        "a0.overflowing_mul(a1)", expect="different", alg=wrong + ("flag",)))
        return out

    # ------------------------------------------------------------------ E-codec (serde form, feature `serde`)
    def serde(self, lay):
        """the serde representation is the one-field struct {bits} holding the underlying integer: serialising through
        a recording Serializer equals serialize_struct(name, 1) + serialize_field("bits", &bits) + end, and
        deserialising the positional form reads exactly that integer"""
        out = []
        L, ity, nb = lay.name, lay.inner, lay.width // 8
        name = lay.struct
        spec_ser = ("{ let bits: %s = a0.to_bits(); let mut st = serde::Serializer::serialize_struct(Rec(&mut *a1), \"%s\", 1)?; "
                    "serde::ser::SerializeStruct::serialize_field(&mut st, \"bits\", &bits)?; "
                    "serde::ser::SerializeStruct::end(st) }" % (ity, name))
        out.append(Pair("E-codec", "serde_serialize", L, "a0: &%s, a1: &mut Sink" % L, "Result<(), SErr>",
                        "serde::Serialize::serialize(a0, Rec(&mut *a1))", spec_ser))
        out.append(Pair("E-codec", "serde_serialize_wrapping", L, "a0: &substrate_fixed::Wrapping<%s>, a1: &mut Sink" % L,
                        "Result<(), SErr>", "serde::Serialize::serialize(a0, Rec(&mut *a1))",
                        spec_ser.replace("a0.to_bits()", "a0.0.to_bits()")))
        spec_de = ("{ let mut b = [0u8; %d]; codec::Input::read(a0, &mut b).map_err(|_| SErr)?; "
                   "Ok(<%s>::from_bits(%s::from_le_bytes(b))) }" % (nb, L, ity))
        out.append(Pair("E-codec", "serde_deserialize", L, "a0: &mut Src", "Result<%s, SErr>" % L,
                        "<%s as serde::Deserialize>::deserialize(De(&mut *a0))" % L, spec_de))
        out.append(Pair("E-codec", "serde_deserialize_wrapping", L, "a0: &mut Src",
                        "Result<substrate_fixed::Wrapping<%s>, SErr>" % L,
                        "<substrate_fixed::Wrapping<%s> as serde::Deserialize>::deserialize(De(&mut *a0))" % L,
                        spec_de.replace("Ok(", "Ok(substrate_fixed::Wrapping(").replace("(b))) }", "(b)))) }")))
        return out

    # ------------------------------------------------------------------ E-codec
    def codec(self, lay, others=()):
        out = []
        L, ity, nb = lay.name, lay.inner, lay.width // 8
        fb = "<%s>::from_bits" % L
        out.append(Pair("E-codec", "encode_to", L, "a0: &%s, a1: &mut Sink" % L, "()",
                        "codec::Encode::encode_to(a0, a1)", "codec::Encode::encode_to(&a0.to_bits(), a1)"))
        out.append(Pair("E-codec", "size_hint", L, "a0: &%s" % L, "usize",
                        "codec::Encode::size_hint(a0)", "codec::Encode::size_hint(&a0.to_bits())"))
        out.append(Pair("E-codec", "decode", L, "a0: &mut Src", "Result<%s, codec::Error>" % L,
                        "<%s as codec::Decode>::decode(a0)" % L,
                        "<%s as codec::Decode>::decode(a0).map(%s)" % (ity, fb)))
        out.append(Pair("E-codec", "max_encoded_len", L, "", "usize",
                        "<%s as codec::MaxEncodedLen>::max_encoded_len()" % L, "%d" % nb))
        for e in ("le", "be", "ne"):
            out.append(Pair("E-codec", "to_%s_bytes" % e, L, "a0: %s" % L, "[u8; %d]" % nb,
                            "a0.to_%s_bytes()" % e, "a0.to_bits().to_%s_bytes()" % e))
            out.append(Pair("E-codec", "from_%s_bytes" % e, L, "a0: [u8; %d]" % nb, L,
                            "<%s>::from_%s_bytes(a0)" % (L, e), "%s(%s::from_%s_bytes(a0))" % (fb, ity, e)))
        out.append(Pair("E-codec", "bits_roundtrip", L, "a0: %s" % ity, ity, "%s(a0).to_bits()" % fb, "a0"))
        # the encoding does not depend on the fractional-bit count
        for o in others:
            if o.struct == lay.struct and o.name != L:
                out.append(Pair("E-codec", "encode_frac_independent", L + "~" + o.name,
                                "a0: %s, a1: &mut Sink" % ity, "()",
                                "codec::Encode::encode_to(&%s(a0), a1)" % fb,
                                "codec::Encode::encode_to(&<%s>::from_bits(a0), a1)" % o.name))
        # controls that must differ
        if nb > 1:
            out.append(Pair("E-codec", "CONTROL_le_vs_be", L, "a0: %s" % L, "[u8; %d]" % nb,
                            "a0.to_le_bytes()", "a0.to_be_bytes()", expect="different"))
        return out

    # ------------------------------------------------------------------ controls
    def controls2(self, fam):
        """pairs that differ in exactly the respects the term normal form abstracts from (comparison width and
        direction, strictness, signedness, range bounds, guards, operand roles): each must compare `different`"""
        C = [
            ("strict", "a0: i32", "bool", "a0 < 16", "a0 <= 16"),
            ("signedness", "a0: i32", "bool", "a0 < 5", "(a0 as u32) < 5"),
            ("range_bound", "a0: i32", "bool", "a0 >= -8 && a0 <= 7", "a0 >= -8 && a0 < 7"),
            ("range_low", "a0: i32", "bool", "a0 >= -8 && a0 <= 7", "a0 > -8 && a0 <= 7"),
            ("guard", "a0: i32", "u8", "if a0 < 0 { 1 } else { 2 }", "if a0 <= 0 { 1 } else { 2 }"),
            ("arms", "a0: i32", "u8", "if a0 < 0 { 1 } else { 2 }", "if a0 < 0 { 2 } else { 1 }"),
            ("scale", "a0: i8, a1: i8", "bool", "((a0 as i128) << 4) < (a1 as i128)", "((a0 as i128) << 3) < (a1 as i128)"),
            ("roles", "a0: i8, a1: i8", "bool", "(a0 as i32) < (a1 as i32)", "(a1 as i32) < (a0 as i32)"),
            ("eq_ne", "a0: i16, a1: i16", "bool", "a0 == a1", "a0 != a1"),
            ("flag", "a0: i16", "(i8, bool)", "(a0 as i8, a0 > 7)", "(a0 as i8, a0 > 8)"),
            ("unsigned_wrap", "a0: u8", "bool", "a0.wrapping_add(3) < 10", "a0 < 7"),
            ("ext", "a0: i8", "bool", "(a0 as i32) < 100", "(a0 as u8 as i32) < 100"),
            ("two_guards", "a0: i32, a1: i32", "bool", "if a0 < 0 || a1 < 0 { false } else { a0 < a1 }",
             "if a0 < 0 { false } else { a0 < a1 }"),
            ("option", "a0: i32", "Option<i32>", "if a0 < 3 { None } else { Some(a0) }", "if a0 < 4 { None } else { Some(a0) }"),
        ]
        return [Pair(fam, "CONTROL2_" + n, "-", ps, ret, a, b, expect="different") for (n, ps, ret, a, b) in C]

    # ------------------------------------------------------------------ E-cmp
    def cmp_same(self, lay):
        out = []
        L = lay.name
        out.append(Pair("E-cmp", "Ord_cmp", L, "a0: &%s, a1: &%s" % (L, L), "core::cmp::Ordering",
                        "core::cmp::Ord::cmp(a0, a1)", "core::cmp::Ord::cmp(&a0.to_bits(), &a1.to_bits())"))
        out.append(Pair("E-cmp", "Hash_hash", L, "a0: &%s, a1: &mut H" % L, "()",
                        "core::hash::Hash::hash(a0, a1)", "core::hash::Hash::hash(&a0.to_bits(), a1)"))
        for (m, op) in (("eq", "=="), ("lt", "<"), ("le", "<="), ("gt", ">"), ("ge", ">=")):
            tr = "PartialEq" if m == "eq" else "PartialOrd"
            out.append(Pair("E-cmp", "same_type_" + m, L, "a0: &%s, a1: &%s" % (L, L), "bool",
                            "<%s as core::cmp::%s<%s>>::%s(a0, a1)" % (L, tr, L, m),
                            "a0.to_bits() %s a1.to_bits()" % op))
        out.append(Pair("E-cmp", "CONTROL_add_vs_sub", L, "a0: %s, a1: %s" % (L, L), L,
                        "a0.wrapping_add(a1)", "a0.wrapping_sub(a1)", expect="different"))
        return out

    # ------------------------------------------------------------------ E-cmpx
    def cmp_cross(self, lt, rt):
        """sibling cross-check of the comparison operators between two types
        (fixed, integer or float, in this operand order): every operator must
        agree with `partial_cmp`, which is implemented separately"""
        out = []
        ps = "a0: &%s, a1: &%s" % (lt, rt)
        item = "%s~%s" % (lt, rt)
        pc = "<%s as core::cmp::PartialOrd<%s>>::partial_cmp(a0, a1)" % (lt, rt)
        O = "core::cmp::Ordering"
        rel = {"lt": "matches!(%s, Some(%s::Less))" % (pc, O),
               "le": "matches!(%s, Some(%s::Less) | Some(%s::Equal))" % (pc, O, O),
               "gt": "matches!(%s, Some(%s::Greater))" % (pc, O),
               "ge": "matches!(%s, Some(%s::Greater) | Some(%s::Equal))" % (pc, O, O)}
        for m, b in rel.items():
            out.append(Pair("E-cmpx", m + "_vs_partial_cmp", item, ps, "bool",
                            "<%s as core::cmp::PartialOrd<%s>>::%s(a0, a1)" % (lt, rt, m), b))
        out.append(Pair("E-cmpx", "eq_vs_partial_cmp", item, ps, "bool",
                        "<%s as core::cmp::PartialEq<%s>>::eq(a0, a1)" % (lt, rt),
                        "matches!(%s, Some(%s::Equal))" % (pc, O)))
        # mirror: a < b  <=>  b > a  (the two orders are separate impls for integers and floats)
        out.append(Pair("E-cmpx", "lt_vs_mirrored_gt", item, ps, "bool",
                        "<%s as core::cmp::PartialOrd<%s>>::lt(a0, a1)" % (lt, rt),
                        "<%s as core::cmp::PartialOrd<%s>>::gt(a1, a0)" % (rt, lt)))
        out.append(Pair("E-cmpx", "partial_cmp_vs_mirrored", item, ps, "Option<%s>" % O,
                        pc, "<%s as core::cmp::PartialOrd<%s>>::partial_cmp(a1, a0).map(%s::reverse)" % (rt, lt, O)))
        # the remaining operators against the impl with the operands exchanged (a separate macro arm for integers
        # and floats): a <= b is b >= a, a >= b is b <= a, a > b is b < a, a == b is b == a
        for m, mm in (("le", "ge"), ("ge", "le"), ("gt", "lt")):
            out.append(Pair("E-cmpx", "%s_vs_mirrored_%s" % (m, mm), item, ps, "bool",
                            "<%s as core::cmp::PartialOrd<%s>>::%s(a0, a1)" % (lt, rt, m),
                            "<%s as core::cmp::PartialOrd<%s>>::%s(a1, a0)" % (rt, lt, mm)))
        out.append(Pair("E-cmpx", "eq_vs_mirrored_eq", item, ps, "bool",
                        "<%s as core::cmp::PartialEq<%s>>::eq(a0, a1)" % (lt, rt),
                        "<%s as core::cmp::PartialEq<%s>>::eq(a1, a0)" % (rt, lt)))
        # exact ordering by definition: both bit patterns aligned to the larger fraction-bit count in a common
        # 128-bit integer (only where both aligned operands fit)
        va, vb = _num_view(lt), _num_view(rt)
        if va and vb:
            F = max(va[2], vb[2])
            na, nb = va[1] + F - va[2], vb[1] + F - vb[2]
            if not va[0] and not vb[0] and na <= 128 and nb <= 128:
                big = "u128"
            elif (na <= (128 if va[0] else 127)) and (nb <= (128 if vb[0] else 127)):
                big = "i128"
            else:
                big = None
            if big is None and ((va[2] == 0 and vb[2] == vb[1]) or (vb[2] == 0 and va[2] == va[1])):
                # an integer-valued operand n against an all-fraction operand x (|x| < 1; the two cannot be aligned in
                # 128 bits): x = floor(x) + (a positive fraction iff its bits are not zero) with floor(x) = -1 for
                # negative x and 0 otherwise, so n ? x is the lexicographic comparison of (n, 0) with (floor x, [bits != 0])
                int_left = va[2] == 0 and not (va[2] == va[1])
                vi, vx = (va, vb) if int_left else (vb, va)
                ai, ax = ("a0", "a1") if int_left else ("a1", "a0")
                ni = "(*%s).to_bits()" % ai if vi[3] else "(*%s)" % ai
                xb = "(*%s).to_bits()" % ax if vx[3] else "(*%s)" % ax
                lost = "((%s != 0) as u8)" % xb
                if vi[0]:
                    fl_x = "(if %s < 0 { -1i128 } else { 0i128 })" % xb if vx[0] else "0i128"
                    core_ = "core::cmp::Ord::cmp(&((%s as i128), 0u8), &(%s, %s))" % (ni, fl_x, lost)
                else:
                    inner = "core::cmp::Ord::cmp(&((%s as u128), 0u8), &(0u128, %s))" % (ni, lost)
                    core_ = ("(if %s < 0 { core::cmp::Ordering::Greater } else { %s })" % (xb, inner)) if vx[0] else inner
                ordv = core_ if int_left else "core::cmp::Ordering::reverse(%s)" % core_
                O2 = "core::cmp::Ordering"
                rel2 = {"lt": "%s == %s::Less", "le": "%s != %s::Greater", "gt": "%s == %s::Greater", "ge": "%s != %s::Less"}
                for m_, fmt in rel2.items():
                    out.append(Pair("E-cmpx", m_ + "_intfrac", item, ps, "bool",
                                    "<%s as core::cmp::PartialOrd<%s>>::%s(a0, a1)" % (lt, rt, m_), fmt % (ordv, O2)))
                out.append(Pair("E-cmpx", "eq_intfrac", item, ps, "bool",
                                "<%s as core::cmp::PartialEq<%s>>::eq(a0, a1)" % (lt, rt), "%s == %s::Equal" % (ordv, O2)))
                out.append(Pair("E-cmpx", "partial_cmp_intfrac", item, ps, "Option<%s>" % O, pc, "Some(%s)" % ordv))
                # the same obligations split by the operands' signs (see below)
                ba = "(*a0).to_bits()" if va[3] else "(*a0)"
                bb = "(*a1).to_bits()" if vb[3] else "(*a1)"
                sides_a = [("an", "%s >= 0" % ba), ("ap", "%s < 0" % ba)] if va[0] else [("a", None)]
                sides_b = [("bn", "%s >= 0" % bb), ("bp", "%s < 0" % bb)] if vb[0] else [("b", None)]
                if va[0] or vb[0]:
                    base = list(out[-6:])
                    for ta, ga in sides_a:
                        for tb, gb in sides_b:
                            g = " || ".join(x_ for x_ in (ga, gb) if x_)
                            for bp in base:
                                dummy = "false" if bp.ret == "bool" else "None"
                                pre = "if %s { return %s; } " % (g, dummy)
                                nm = bp.cls.split("|", 1)[1]
                                out.append(Pair("E-cmpx", "%s_%s%s" % (nm, ta, tb), item, ps, bp.ret,
                                                "{ %s%s }" % (pre, bp.a), "{ %s%s }" % (pre, bp.b)))
            if big:
                def al(arg, v):
                    bits = "(*%s).to_bits()" % arg if v[3] else "(*%s)" % arg
                    return "((%s as %s) << %d)" % (bits, big, F - v[2]) if F - v[2] else "(%s as %s)" % (bits, big)
                x, y = al("a0", va), al("a1", vb)
                for m, op in (("lt", "<"), ("le", "<="), ("gt", ">"), ("ge", ">=")):
                    out.append(Pair("E-cmpx", m + "_exact", item, ps, "bool",
                                    "<%s as core::cmp::PartialOrd<%s>>::%s(a0, a1)" % (lt, rt, m), "%s %s %s" % (x, op, y)))
                out.append(Pair("E-cmpx", "eq_exact", item, ps, "bool",
                                "<%s as core::cmp::PartialEq<%s>>::eq(a0, a1)" % (lt, rt), "%s == %s" % (x, y)))
                out.append(Pair("E-cmpx", "partial_cmp_exact", item, ps, "Option<%s>" % O, pc,
                                "Some(core::cmp::Ord::cmp(&%s, &%s))" % (x, y)))
                # the same obligations split by the operands' signs (each part guarded by an early return of a
                # dummy outside it; the parts together cover every operand pair): inside one sign quadrant LLVM
                # folds the library's sign and overflow short-circuits
                ba = "(*a0).to_bits()" if va[3] else "(*a0)"
                bb = "(*a1).to_bits()" if vb[3] else "(*a1)"
                sides_a = [("an", "%s >= 0" % ba), ("ap", "%s < 0" % ba)] if va[0] else [("a", None)]
                sides_b = [("bn", "%s >= 0" % bb), ("bp", "%s < 0" % bb)] if vb[0] else [("b", None)]
                if va[0] or vb[0]:
                    base = list(out[-6:])
                    for ta, ga in sides_a:
                        for tb, gb in sides_b:
                            g = " || ".join(x_ for x_ in (ga, gb) if x_)
                            for bp in base:
                                dummy = "false" if bp.ret == "bool" else "None"
                                pre = "if %s { return %s; } " % (g, dummy)
                                nm = bp.cls.split("|", 1)[1]
                                out.append(Pair("E-cmpx", "%s_%s%s" % (nm, ta, tb), item, ps, bp.ret,
                                                "{ %s%s }" % (pre, bp.a), "{ %s%s }" % (pre, bp.b)))
        return out

    # ------------------------------------------------------------------ E-conv
    def conv(self, src, dst):
        """From / LossyFrom / wrapping_to_num between two fixed layouts as
        extend-or-truncate plus shift toward minus infinity"""
        out = []
        S, D = src.name, dst.name
        sh = dst.frac - src.frac
        big = "i128" if src.signed else "u128"
        if sh >= 0:
            val = "(((a0.to_bits() as %s) << %d) as %s)" % (big, sh, dst.inner) if sh < 128 else None
        else:
            val = "(((a0.to_bits() as %s) >> %d) as %s)" % (big, -sh, dst.inner) if -sh < 128 else \
                ("((a0.to_bits() as %s >> 127) as %s)" % (big, dst.inner))
        if val is None:
            return out
        spec = "<%s>::from_bits(%s)" % (D, val)
        ps = "a0: %s" % S
        item = "%s->%s" % (S, D)
        out.append(Pair("E-conv", "wrapping_to_num", item, ps, D, "a0.wrapping_to_num::<%s>()" % D, spec))
        out.append(Pair("E-conv", "wrapping_from_num", item, ps, D, "<%s>::wrapping_from_num(a0)" % D, spec))
        out.append(Pair("E-conv", "From", item, ps, D, "<%s as core::convert::From<%s>>::from(a0)" % (D, S), spec))
        out.append(Pair("E-conv", "LossyFrom", item, ps, D,
                        "<%s as substrate_fixed::traits::LossyFrom<%s>>::lossy_from(a0)" % (D, S), spec))
        # the overflow flag, by definition: floor(x * 2^fd) = bits * 2^sh must lie in the destination's range
        fits = fits_expr(src.signed, "a0.to_bits()", sh, dst.signed, dst.width)
        rt = "(%s, bool)" % D
        out.append(Pair("E-conv", "overflowing_to_num", item, ps, rt, "a0.overflowing_to_num::<%s>()" % D,
                        "(%s, !%s)" % (spec, fits)))
        if src.signed:
            out += _halves("overflowing_to_num", item, ps, rt, "a0.to_bits()", "(<%s>::from_bits(0), false)" % D,
                           "a0.overflowing_to_num::<%s>()" % D, "(%s, !%s)" % (spec, fits))
        out += self._conv_policies(item, ps, D, "a0.%s_to_num::<" + D + ">()", src.signed, "a0.to_bits()",
                                   "<%s>::min_value()" % D, "<%s>::max_value()" % D, "to_num")
        return out

    def _conv_policies(self, item, ps, D, call, src_signed, bits, dmin, dmax, what):
        """checked / saturating forms against the overflowing form: None exactly on overflow; the bound on the
        value's side (0 lies in every range, so a value out of range is below it iff it is negative)"""
        out = []
        o = call % "overflowing"
        out.append(Pair("E-conv", "checked_" + what, item, ps, "Option<%s>" % D, call % "checked",
                        "{ let (v, o) = %s; if o { None } else { Some(v) } }" % o))
        if src_signed:
            side = "if %s < 0 { %s } else { %s }" % (bits, dmin, dmax)
        else:
            side = dmax
        out.append(Pair("E-conv", "saturating_" + what, item, ps, D, call % "saturating",
                        "{ let (v, o) = %s; if !o { v } else { %s } }" % (o, side)))
        return out

    def conv_int(self, lay, ity):
        """to/from a primitive integer: fixed -> int drops the fraction toward
        minus infinity and truncates; int -> fixed shifts in"""
        out = []
        L = lay.name
        big = "i128" if lay.signed else "u128"
        f = lay.frac
        if f < 128:
            spec = "(((a0.to_bits() as %s) >> %d) as %s)" % (big, f, ity)
        else:
            spec = "(((a0.to_bits() as %s) >> 127 >> 1) as %s)" % (big, ity)
        out.append(Pair("E-conv", "wrapping_to_num_int", "%s->%s" % (L, ity), "a0: %s" % L, ity,
                        "a0.wrapping_to_num::<%s>()" % ity, spec))
        # the infallible conversions to an integer (they exist only for pairs whose bounds hold; absent impls do
        # not type-check and are dropped): the value with the fraction discarded toward minus infinity
        out.append(Pair("E-conv", "LossyFrom_to_int", "%s->%s" % (L, ity), "a0: %s" % L, ity,
                        "<%s as substrate_fixed::traits::LossyFrom<%s>>::lossy_from(a0)" % (ity, L), spec))
        if f == 0:
            out.append(Pair("E-conv", "From_to_int", "%s->%s" % (L, ity), "a0: %s" % L, ity,
                            "<%s as core::convert::From<%s>>::from(a0)" % (ity, L), spec))
        sbig = "i128" if ity.startswith("i") else "u128"
        if f < 128:
            spec2 = "<%s>::from_bits(((a0 as %s) << %d) as %s)" % (L, sbig, f, lay.inner)
        else:
            spec2 = "<%s>::from_bits(0)" % L
        out.append(Pair("E-conv", "wrapping_from_num_int", "%s->%s" % (ity, L), "a0: %s" % ity, L,
                        "<%s>::wrapping_from_num(a0)" % L, spec2))
        out.append(Pair("E-conv", "From_int", "%s->%s" % (ity, L), "a0: %s" % ity, L,
                        "<%s as core::convert::From<%s>>::from(a0)" % (L, ity), spec2))
        # overflow flags by definition (an integer is a fixed-point number without fraction bits)
        isg, iw = ity.startswith("i"), int(ity[1:])
        item = "%s->%s" % (L, ity)
        ps = "a0: %s" % L
        out.append(Pair("E-conv", "overflowing_to_num_int", item, ps, "(%s, bool)" % ity,
                        "a0.overflowing_to_num::<%s>()" % ity,
                        "(%s, !%s)" % (spec, fits_expr(lay.signed, "a0.to_bits()", -f, isg, iw))))
        if lay.signed:
            out += _halves("overflowing_to_num_int", item, ps, "(%s, bool)" % ity, "a0.to_bits()", "(0, false)",
                           "a0.overflowing_to_num::<%s>()" % ity,
                           "(%s, !%s)" % (spec, fits_expr(lay.signed, "a0.to_bits()", -f, isg, iw)))
        out += self._conv_policies(item, ps, ity, "a0.%s_to_num::<" + ity + ">()", lay.signed, "a0.to_bits()",
                                   "%s::MIN" % ity, "%s::MAX" % ity, "to_num_int")
        item = "%s->%s" % (ity, L)
        ps = "a0: %s" % ity
        out.append(Pair("E-conv", "overflowing_from_num_int", item, ps, "(%s, bool)" % L,
                        "<%s>::overflowing_from_num(a0)" % L,
                        "(%s, !%s)" % (spec2, fits_expr(isg, "a0", f, lay.signed, lay.width))))
        if isg:
            out += _halves("overflowing_from_num_int", item, ps, "(%s, bool)" % L, "a0", "(<%s>::from_bits(0), false)" % L,
                           "<%s>::overflowing_from_num(a0)" % L,
                           "(%s, !%s)" % (spec2, fits_expr(isg, "a0", f, lay.signed, lay.width)))
        out += self._conv_policies(item, ps, L, "<" + L + ">::%s_from_num(a0)", isg, "a0",
                                   "<%s>::min_value()" % L, "<%s>::max_value()" % L, "from_num_int")
        return out

    # ------------------------------------------------------------------ E-del
    def delegates(self, lay):
        """every Fixed/FixedSigned/FixedUnsigned trait method == the inherent method"""
        out = []
        for r in self.gen.trait_method_roots(lay, num_types=("i32", "f32", "I16F16")):
            m = re.match(r"^#\[no_mangle\] #\[inline\(never\)\]\npub fn (\w+)\((.*)\) -> (.*?) \{ (.*) \}\n$", r.code, re.S)
            if not m:
                continue
            params, ret, body = m.group(2), m.group(3), m.group(4)
            tn, mn = r.api.split("::")
            inherent = body.replace("<%s as substrate_fixed::traits::%s>::" % (lay.name, tn), "<%s>::" % lay.name)
            if inherent == body:
                continue
            item = r.sym.split("__", 2)[2]
            out.append(Pair("E-del", item, lay.name, params, ret, body, inherent))
        return out


HEADER_EXTRA = """
extern crate codec;
/// select written as a bit mask: m is 0 when `c` holds and all ones otherwise, so this is `if c { x } else { y }`
macro_rules! bitsel { ($t:ty, $c:expr, $x:expr, $y:expr) => {{ let m: $t = (($c) as $t).wrapping_sub(1); (($x) & !m) | (($y) & m) }}; }
pub struct Sink(pub [u8; 64], pub usize);
impl codec::Output for Sink {
    #[inline(never)]
    fn write(&mut self, bytes: &[u8]) { for b in bytes { self.0[self.1 & 63] = *b; self.1 += 1; } }
}
pub struct Src(pub [u8; 64], pub usize);
impl codec::Input for Src {
    fn remaining_len(&mut self) -> Result<Option<usize>, codec::Error> { Ok(Some(64usize.saturating_sub(self.1))) }
    #[inline(never)]
    fn read(&mut self, into: &mut [u8]) -> Result<(), codec::Error> {
        if into.len() > 64usize.saturating_sub(self.1) { return Err("eof".into()); }
        for b in into.iter_mut() { *b = self.0[self.1 & 63]; self.1 += 1; }
        Ok(())
    }
}
"""


# a recording serde Serializer / Deserializer for the `serde` family: integers are written / read as a tag byte
# (signedness and width) plus their little-endian bytes, a struct as its name, its field count and its fields
# (key, value); everything else is an error.  Both sides of a pair use the same one.
SERDE_EXTRA = """
extern crate serde;
use serde::ser::{self, Impossible};
use serde::de::{self, Visitor, SeqAccess, DeserializeSeed};
#[derive(Debug)]
pub struct SErr;
impl core::fmt::Display for SErr { fn fmt(&self, f: &mut core::fmt::Formatter) -> core::fmt::Result { f.write_str("e") } }
impl ser::StdError for SErr {}
impl ser::Error for SErr { fn custom<T: core::fmt::Display>(_m: T) -> Self { SErr } }
impl de::Error for SErr { fn custom<T: core::fmt::Display>(_m: T) -> Self { SErr } }
pub struct Rec<'a>(pub &'a mut Sink);
macro_rules! ser_int { ($($m:ident $t:ty = $tag:expr;)*) => { $(
    #[inline] fn $m(self, v: $t) -> Result<(), SErr> { codec::Output::write(self.0, &[$tag]); codec::Output::write(self.0, &v.to_le_bytes()); Ok(()) } )* } }
macro_rules! ser_no { ($($m:ident($($a:ty),*);)*) => { $( fn $m(self, $(_: $a),*) -> Result<(), SErr> { Err(SErr) } )* } }
impl<'a> ser::Serializer for Rec<'a> {
    type Ok = (); type Error = SErr;
    type SerializeSeq = Impossible<(), SErr>; type SerializeTuple = Impossible<(), SErr>;
    type SerializeTupleStruct = Impossible<(), SErr>; type SerializeTupleVariant = Impossible<(), SErr>;
    type SerializeMap = Impossible<(), SErr>; type SerializeStruct = Rec<'a>; type SerializeStructVariant = Impossible<(), SErr>;
    ser_int! { serialize_i8 i8 = 1; serialize_i16 i16 = 2; serialize_i32 i32 = 3; serialize_i64 i64 = 4; serialize_i128 i128 = 5;
               serialize_u8 u8 = 11; serialize_u16 u16 = 12; serialize_u32 u32 = 13; serialize_u64 u64 = 14; serialize_u128 u128 = 15; }
    ser_no! { serialize_bool(bool); serialize_f32(f32); serialize_f64(f64); serialize_char(char); serialize_str(&str); serialize_bytes(&[u8]);
              serialize_unit_struct(&'static str); serialize_unit_variant(&'static str, u32, &'static str); }
    fn collect_str<T: ?Sized + core::fmt::Display>(self, _v: &T) -> Result<(), SErr> { Err(SErr) }
    fn serialize_none(self) -> Result<(), SErr> { Err(SErr) }
    fn serialize_unit(self) -> Result<(), SErr> { Err(SErr) }
    fn serialize_some<T: ?Sized + ser::Serialize>(self, _v: &T) -> Result<(), SErr> { Err(SErr) }
    fn serialize_newtype_struct<T: ?Sized + ser::Serialize>(self, _n: &'static str, _v: &T) -> Result<(), SErr> { Err(SErr) }
    fn serialize_newtype_variant<T: ?Sized + ser::Serialize>(self, _n: &'static str, _i: u32, _v: &'static str, _x: &T) -> Result<(), SErr> { Err(SErr) }
    fn serialize_seq(self, _l: Option<usize>) -> Result<Self::SerializeSeq, SErr> { Err(SErr) }
    fn serialize_tuple(self, _l: usize) -> Result<Self::SerializeTuple, SErr> { Err(SErr) }
    fn serialize_tuple_struct(self, _n: &'static str, _l: usize) -> Result<Self::SerializeTupleStruct, SErr> { Err(SErr) }
    fn serialize_tuple_variant(self, _n: &'static str, _i: u32, _v: &'static str, _l: usize) -> Result<Self::SerializeTupleVariant, SErr> { Err(SErr) }
    fn serialize_map(self, _l: Option<usize>) -> Result<Self::SerializeMap, SErr> { Err(SErr) }
    fn serialize_struct_variant(self, _n: &'static str, _i: u32, _v: &'static str, _l: usize) -> Result<Self::SerializeStructVariant, SErr> { Err(SErr) }
    #[inline] fn serialize_struct(self, name: &'static str, len: usize) -> Result<Rec<'a>, SErr> {
        codec::Output::write(self.0, &[200, len as u8, name.len() as u8]); codec::Output::write(self.0, name.as_bytes()); Ok(self) }
    fn is_human_readable(&self) -> bool { false }
}
impl<'a> ser::SerializeStruct for Rec<'a> {
    type Ok = (); type Error = SErr;
    #[inline] fn serialize_field<T: ?Sized + ser::Serialize>(&mut self, key: &'static str, v: &T) -> Result<(), SErr> {
        codec::Output::write(self.0, &[201, key.len() as u8]); codec::Output::write(self.0, key.as_bytes()); v.serialize(Rec(&mut *self.0)) }
    #[inline] fn end(self) -> Result<(), SErr> { codec::Output::write(self.0, &[202]); Ok(()) }
}
pub struct De<'a>(pub &'a mut Src);
macro_rules! de_int { ($($m:ident $v:ident $t:ty = $n:expr;)*) => { $(
    #[inline] fn $m<V: Visitor<'de>>(self, vis: V) -> Result<V::Value, SErr> {
        let mut b = [0u8; $n]; codec::Input::read(self.0, &mut b).map_err(|_| SErr)?; vis.$v(<$t>::from_le_bytes(b)) } )* } }
macro_rules! de_no { ($($m:ident;)*) => { $( fn $m<V: Visitor<'de>>(self, _vis: V) -> Result<V::Value, SErr> { Err(SErr) } )* } }
impl<'de, 'a> de::Deserializer<'de> for De<'a> {
    type Error = SErr;
    de_int! { deserialize_i8 visit_i8 i8 = 1; deserialize_i16 visit_i16 i16 = 2; deserialize_i32 visit_i32 i32 = 4; deserialize_i64 visit_i64 i64 = 8; deserialize_i128 visit_i128 i128 = 16;
              deserialize_u8 visit_u8 u8 = 1; deserialize_u16 visit_u16 u16 = 2; deserialize_u32 visit_u32 u32 = 4; deserialize_u64 visit_u64 u64 = 8; deserialize_u128 visit_u128 u128 = 16; }
    de_no! { deserialize_any; deserialize_bool; deserialize_f32; deserialize_f64; deserialize_char; deserialize_str; deserialize_string; deserialize_bytes;
             deserialize_byte_buf; deserialize_option; deserialize_unit; deserialize_seq; deserialize_map; deserialize_identifier; deserialize_ignored_any; }
    fn deserialize_unit_struct<V: Visitor<'de>>(self, _n: &'static str, _v: V) -> Result<V::Value, SErr> { Err(SErr) }
    fn deserialize_newtype_struct<V: Visitor<'de>>(self, _n: &'static str, _v: V) -> Result<V::Value, SErr> { Err(SErr) }
    fn deserialize_tuple<V: Visitor<'de>>(self, _l: usize, _v: V) -> Result<V::Value, SErr> { Err(SErr) }
    fn deserialize_tuple_struct<V: Visitor<'de>>(self, _n: &'static str, _l: usize, _v: V) -> Result<V::Value, SErr> { Err(SErr) }
    fn deserialize_enum<V: Visitor<'de>>(self, _n: &'static str, _vs: &'static [&'static str], _v: V) -> Result<V::Value, SErr> { Err(SErr) }
    #[inline] fn deserialize_struct<V: Visitor<'de>>(self, _n: &'static str, fields: &'static [&'static str], vis: V) -> Result<V::Value, SErr> {
        vis.visit_seq(OneSeq(self.0, fields.len())) }
    fn is_human_readable(&self) -> bool { false }
}
pub struct OneSeq<'a>(pub &'a mut Src, pub usize);
impl<'de, 'a> SeqAccess<'de> for OneSeq<'a> {
    type Error = SErr;
    #[inline] fn next_element_seed<T: DeserializeSeed<'de>>(&mut self, seed: T) -> Result<Option<T::Value>, SErr> {
        if self.1 == 0 { return Ok(None); }
        self.1 -= 1;
        seed.deserialize(De(&mut *self.0)).map(Some) }
}
"""


def pair_code(idx, p):
    a = "#[no_mangle] #[inline(never)]\npub fn a__%d(%s) -> %s { %s }\n" % (idx, p.params, p.ret, p.a)
    b = "#[no_mangle] #[inline(never)]\npub fn b__%d(%s) -> %s { %s }\n" % (idx, p.params, p.ret, p.b)
    return a, b
