"""Property-level driver for Engine L (C17)."""
import json
import os
from concurrent.futures import ProcessPoolExecutor

from . import api as A
from . import build as B
from . import common as C
from . import engine_a
from . import engine_l
from . import run_a

HERE = os.path.dirname(os.path.abspath(__file__))
CTL = {"ctl__loop_const": (37, 37), "ctl__loop_halving": (64, 64), "ctl__loop_linear": (10 ** 9, None),
       "ctl__loop_runtime": (50, 50)}


def run(report, tier):
    ctx = run_a.context(tier)
    crates = ctx["plan"].loop_crates()
    built = B.build("loops", crates)
    astamp = C.file_hash(os.path.join(HERE, "engine_l.py"), os.path.join(HERE, "engine_a.py"),
                         os.path.join(HERE, "llir.py"))
    jobs, results = [], {}
    for cr in crates:
        ll = built[cr.name]["ll"]
        fpath = ll[:-3] + ".L.json"
        with open(ll + ".stamp") as fh:
            stamp = C.text_hash(fh.read(), astamp)
        syms = [r.sym for r in cr.roots if r.sym not in built[cr.name]["dropped"]] + sorted(CTL)
        if C.stamp_ok(fpath, stamp):
            results[cr.name] = C.load_json(fpath)
        else:
            jobs.append((cr.name, fpath, stamp,
                         (ll, syms, os.path.join(C.WORK, "ws") + "/", C.hash_dir(), cr.name)))
    if jobs:
        with ProcessPoolExecutor(max_workers=min(8, len(jobs))) as ex:
            for (name, fpath, stamp, _a), res in zip(jobs, ex.map(engine_l.analyse_crate, [j[3] for j in jobs])):
                C.save_json(fpath, res, indent=None)
                C.write_stamp(fpath, stamp)
                results[name] = res
    # controls
    nctl = 0
    for cr in crates:
        for c, (lo, hi) in CTL.items():
            r = results[cr.name].get(c)
            if r is None:
                raise run_a.EngineError("loop control %s missing in %s" % (c, cr.name))
            t = r["total"]
            tv = float("inf") if t == "inf" else t
            if tv < lo or (hi is not None and tv > hi):
                raise run_a.EngineError("loop control %s in %s: bound %s outside [%s, %s] -- the pipeline "
                                        "transformed the loop, counts would be unreliable" % (c, cr.name, t, lo, hi))
            nctl += 1
    nroots = 0
    nloops = 0
    rules = {}
    samples = []
    unanalysed = []
    pairs = set()
    worst = None
    for cr in crates:
        for r in cr.roots:
            if r.sym in built[cr.name]["dropped"]:
                unanalysed.append({"root": r.sym, "why": built[cr.name]["dropped"][r.sym][:120]})
                continue
            res = results[cr.name].get(r.sym)
            if res is None:
                raise run_a.EngineError("root %s missing from loop analysis" % r.sym)
            nroots += 1
            d = A.Layout(r.extra.get("D") or r.extra.get("T"))
            pairs.add((r.extra.get("S") or r.extra.get("T"), d.name))
            budget = 4 * d.width + 64
            t = res["total"]
            tv = float("inf") if t == "inf" else t
            nloops += len(res["loops"])
            for lp in res["loops"]:
                rk = lp["rule"].split(":")[0]
                rules[rk] = rules.get(rk, 0) + 1
            if worst is None or (tv / budget) > worst[0]:
                worst = (tv / budget if tv != float("inf") else float("inf"), r.sym, t, budget)
            if tv > budget:
                offenders = [lp for lp in res["loops"]
                             if lp["bound"] == "inf" or (isinstance(lp["bound"], int) and lp["bound"] > budget)]
                if not offenders:
                    offenders = res["loops"]
                fns = sorted({lp.get("src_fn") or engine_a.normalise_fn(lp["fn"]) for lp in offenders})
                key = "L|%s|%s|%s" % (r.api, ",".join(fns)[:200],
                                      "unbounded" if any(lp["bound"] == "inf" for lp in offenders) else "over budget")
                report.violation("L", key,
                                 "loop work of %s is %s for some operand, budget 4*%d+64 = %d" % (r.api, t, d.width, budget),
                                 {"root": r.sym, "total": t, "budget": budget, "loops": offenders[:6]})
            if len(samples) < 5 and r.api in ("sqrt", "log2", "pow", "sin", "exp") and \
                    r.api not in {s["api"] for s in samples}:
                samples.append({"root": r.sym, "api": r.api, "bound": t, "budget": budget,
                                "loops": [{"fn": lp["fn"][-60:], "bound": lp["bound"], "rule": lp["rule"][:90],
                                           "where": lp.get("where", "")[:120]} for lp in res["loops"]]})
    floors = C.load_json(run_a.FLOORS_PATH, default={})
    want = floors.get(tier, {}).get("L")
    if want is not None and nroots < want:
        raise run_a.EngineError("only %d loop roots analysed, floor %d" % (nroots, want))
    return {"engine": "L (LoopInfo + ScalarEvolution of nightly opt on a sliced loop-preserving build; halving rule)",
            "roots_analysed": nroots, "type_pairs": len(pairs), "loops_bounded": nloops, "rules_used": rules,
            "controls_passed": nctl, "worst_ratio_to_budget": {"root": worst[1], "bound": worst[2], "budget": worst[3]} if worst else None,
            "unanalysed": unanalysed, "samples": samples, "floor": want}
