"""Which roots are generated for which part of the API, per tier.

A *part* is a slice of the public API (inherent arithmetic, conversions,
parsing, formatting, operators, comparisons, Wrapping, trait delegates,
transcendental functions).  Each part is split into one crate per family so
that cargo builds them in parallel."""
from . import api as A
from . import build as B
from . import common as C
from . import gen as G

PARTS = ["inh", "conv", "parse", "fmt", "ops", "cmp", "wrap", "trait", "transc"]

FIXED_CONV_PARTNERS = ["I4F4", "U8F0", "I16F16", "U0F32", "I32F32", "U64F0",
                       "I64F64", "U128F0", "I0F128", "U64F64"]

# transcendental type sets (DESIGN section 4)
TR_SIGNED = ["I9F23", "I16F48", "I32F32", "I40F88", "I64F64", "I96F32", "I9F55", "I9F119", "I105F23"]
TR_UNSIGNED_SQRT = ["U9F23", "U32F32", "U64F64", "U96F32"]
TR_MIXED = [("I9F23", "I32F32"), ("I9F23", "I64F64"), ("I32F32", "I64F64"), ("I9F23", "I9F55")]
TR_POWI_UNSIGNED = [("U32F32", "I64F64")]
TR_QUICK_SIGNED = ["I9F23", "I32F32", "I64F64", "I16F48", "I40F88"]


def fam_name(signed, width):
    return "%s%d" % ("i" if signed else "u", width)


def layouts_for(tier, fam=None, sub=None):
    if tier == "thorough":
        ls = A.all_layouts()
    else:
        ls = A.quick_layouts()
    if fam is not None:
        ls = [l for l in ls if (l.signed, l.width) == fam]
    if sub == "3":      # frac in {0, N/2, N}
        ls = [l for l in ls if l.frac in (0, l.width // 2, l.width)]
    return ls


def sample_layouts(tier, fam):
    """layout sample for the parts whose root count per layout is large"""
    if tier == "thorough":
        ls = A.thorough_sample_layouts(C.seed())
    else:
        ls = A.quick_layouts()
    return [l for l in ls if (l.signed, l.width) == fam]


def _is_inh_part(group, name):
    return group not in ("conv", "parse")


class Plan:
    def __init__(self, api, tier):
        self.api = api
        self.tier = tier
        self.gen = G.Generator(api)
        self._cache = {}

    def crates(self, part):
        if part in self._cache:
            return self._cache[part]
        fn = getattr(self, "_part_" + part)
        out = fn()
        self._cache[part] = out
        return out

    CHUNK = 3500

    def _mk(self, part, fam, roots):
        """one crate per (part, family); big ones are split so that the
        single-threaded LTO of each crate stays short"""
        name = "h_%s_%s" % (part, fam_name(*fam) if fam else "all")
        if len(roots) <= self.CHUNK:
            return [B.Crate(name, roots, extra_code=G.controls())]
        n = (len(roots) + self.CHUNK - 1) // self.CHUNK
        per = (len(roots) + n - 1) // n
        return [B.Crate("%s_%d" % (name, i), roots[i * per:(i + 1) * per], extra_code=G.controls())
                for i in range(n)]

    # ------------------------------------------------------------------
    def _part_inh(self):
        out = []
        for fam in A.FAMILIES:
            roots = []
            for l in layouts_for(self.tier, fam):
                roots += self.gen.inherent_roots(l, num_types=None,
                                                 want=lambda g, n: g not in ("conv", "parse"))
            out.extend(self._mk("inh", fam, roots))
        return out

    def _conv_types(self, l):
        ts = list(G.NUM_TYPES)
        fx = list(FIXED_CONV_PARTNERS)
        # same-family neighbours: one fraction bit more / fewer, other signedness
        for f in (l.frac - 1, l.frac + 1):
            if 0 <= f <= l.width:
                fx.append(A.layout_name(l.signed, l.width, f))
        fx.append(A.layout_name(not l.signed, l.width, l.frac))
        seen = set()
        for t in fx:
            if t not in seen and t != l.name:
                seen.add(t)
                ts.append(t)
        ts.append(l.name)
        return ts

    def _part_conv(self):
        out = []
        for fam in A.FAMILIES:
            roots = []
            ls = layouts_for("thorough", fam) if self.tier == "thorough" else layouts_for("quick", fam, sub="3")
            for l in ls:
                roots += self.gen.inherent_roots(l, num_types=self._conv_types(l),
                                                 want=lambda g, n: g == "conv")
                roots += self._infallible_conv_roots(l)
            out.extend(self._mk("conv", fam, roots))
        return out

    def _infallible_conv_roots(self, l):
        """From / LossyFrom impls with source `l` (class T: they must never panic).  Destinations: every primitive
        integer and float and the conversion partners; only pairs for which the arithmetic specification of
        engine_t says the impl may exist are generated (others would not type-check; an impl that exists against
        the specification is Engine T's finding)"""
        from . import engine_t as T
        src = T.Ty(l.name)
        dsts = [t for t in self._conv_types(l) if t != l.name and t not in ("isize", "usize")]
        pf, pl = [], []
        for d in dsts:
            try:
                dt = T.Ty(d)
            except ValueError:
                continue
            if T.from_is_safe(src, dt):
                pf.append((l.name, d))
            if T.lossy_is_safe(src, dt):
                pl.append((l.name, d))
        for fl in ("f32", "f64"):
            if (l.name, fl) not in pl:
                pl.append((l.name, fl))                  # LossyFrom<fixed> for floats (rounding; dropped if absent)
        for p in A.INT_TYPES + ["bool"]:
            if p in ("isize", "usize"):
                continue
            if T.from_is_safe(T.Ty(p), src):
                pf.append((p, l.name))
            if T.lossy_is_safe(T.Ty(p), src):
                pl.append((p, l.name))
        return self.gen.conv_trait_roots(pf, "From") + self.gen.conv_trait_roots(pl, "LossyFrom")

    def _part_parse(self):
        out = []
        for fam in A.FAMILIES:
            roots = []
            for l in layouts_for(self.tier, fam):
                roots += self.gen.inherent_roots(l, want=lambda g, n: g == "parse")
                roots += [r for r in self.gen.misc_trait_roots(l) if r.group == "parse"]
            out.extend(self._mk("parse", fam, roots))
        return out

    def _part_fmt(self):
        out = []
        for fam in A.FAMILIES:
            roots = []
            for l in layouts_for(self.tier, fam):
                roots += self.gen.fmt_roots(l)
            out.extend(self._mk("fmt", fam, roots))
        return out

    def _part_ops(self):
        out = []
        for fam in A.FAMILIES:
            roots = []
            ls = layouts_for(self.tier, fam)
            full = {l.name for l in layouts_for("quick", fam)} if self.tier == "thorough" \
                else {A.layout_name(fam[0], fam[1], fam[1] // 2)}
            for l in ls:
                if l.name in full:
                    roots += self.gen.op_roots(l)
                else:
                    roots += self.gen.op_roots(l, forms="value", shift_types=("i32", "u32", "u128", "i8"))
            out.extend(self._mk("ops", fam, roots))
        return out

    def _cmp_partners(self):
        ps = []
        for fam in A.FAMILIES:
            ps += layouts_for("quick", fam, sub="3")
        if self.tier == "thorough":
            for fam in A.FAMILIES:
                w = fam[1]
                for f in (1, w - 1):
                    ps.append(A.Layout(A.layout_name(fam[0], w, f)))
        return ps

    def _part_cmp(self):
        out = []
        partners = self._cmp_partners()
        prims = A.INT_TYPES + ["f32", "f64"]
        for fam in A.FAMILIES:
            roots = []
            ls = layouts_for("quick", fam) if self.tier == "thorough" else layouts_for("quick", fam, sub="3")
            for l in ls:
                roots += self.gen.cmp_roots(l, rhs_layouts=partners, prims=prims)
                roots += [r for r in self.gen.misc_trait_roots(l) if r.group == "cmp"]
            out.extend(self._mk("cmp", fam, roots))
        return out

    def _part_wrap(self):
        out = []
        for fam in A.FAMILIES:
            roots = []
            ls = layouts_for(self.tier, fam)
            full = {l.name for l in layouts_for("quick", fam)} if self.tier == "thorough" \
                else {A.layout_name(fam[0], fam[1], fam[1] // 2)}
            for l in ls:
                nts = ["i8", "u64", "i128", "f32", "f64", "bool", "I16F16", "U0F32"]
                roots += self.gen.wrapping_inherent_roots(l, num_types=nts)
                if l.name in full:
                    roots += self.gen.op_roots(l, struct="Wrapping")
                else:
                    roots += self.gen.op_roots(l, struct="Wrapping", forms="value",
                                               shift_types=("i32", "u32", "u128", "i8"))
                roots += self.gen.fmt_roots(l, wrapping=True)
                roots += self.gen.misc_trait_roots(l, wrapping=True)
            out.extend(self._mk("wrap", fam, roots))
        return out

    def _part_trait(self):
        out = []
        for fam in A.FAMILIES:
            roots = []
            ls = layouts_for("quick", fam) if self.tier == "thorough" else \
                [A.Layout(A.layout_name(fam[0], fam[1], fam[1] // 2))]
            for l in ls:
                roots += self.gen.trait_method_roots(l)
            out.extend(self._mk("trait", fam, roots))
        return out

    def transc_types(self):
        if self.tier == "thorough":
            # every signed layout into which the module's I9F23 constants convert losslessly
            # (>= 9 integer bits incl. sign, >= 23 fractional bits): 1 + 33 + 97 = 131 same-type pairs
            signed = [A.layout_name(True, w, f) for w in (32, 64, 128) for f in range(23, w - 9 + 1)]
        else:
            signed = TR_QUICK_SIGNED
        pairs = [(A.Layout(s), A.Layout(s)) for s in signed]
        pairs += [(A.Layout(s), A.Layout(d)) for (s, d) in TR_MIXED]
        singles = [A.Layout(s) for s in signed]
        return signed, pairs, singles

    def _part_transc(self):
        signed, pairs, singles = self.transc_types()
        roots = self.gen.transc_roots(pairs, singles, guard_trig=True)
        # unsigned sources exist for sqrt (S = D) and powi (unsigned S, signed D)
        us = [(A.Layout(s), A.Layout(s)) for s in self._unsigned_sqrt()]
        roots += self.gen.transc_roots(us, [], fns={"sqrt"})
        roots += self.gen.transc_roots([(A.Layout(s), A.Layout(d)) for (s, d) in TR_POWI_UNSIGNED], [],
                                       fns={"powi", "sqrt"})
        # split into a few crates for parallel LTO
        n = 16 if self.tier == "thorough" else 2
        out = []
        for i in range(n):
            out.append(B.Crate("h_transc_%d" % i, roots[i::n], extra_code=G.controls()))
        return out

    def _unsigned_sqrt(self):
        if self.tier == "thorough":
            return [A.layout_name(False, w, f) for w in (32, 64, 128) for f in range(23, w - 9 + 1, 4)]
        return TR_UNSIGNED_SQRT

    # unguarded trig + everything else for the loop engine
    def loop_crates(self):
        signed, pairs, singles = self.transc_types()
        roots = self.gen.transc_roots(pairs, singles, guard_trig=False,
                                      fns={"sqrt", "log2", "ln", "exp", "pow", "sin", "cos", "tan"})
        us = [(A.Layout(s), A.Layout(s)) for s in self._unsigned_sqrt()]
        roots += self.gen.transc_roots(us, [], fns={"sqrt"})
        n = 16 if self.tier == "thorough" else 2
        return [B.Crate("h_loops_%d" % i, roots[i::n], extra_code=LOOP_CONTROLS) for i in range(n)]


LOOP_CONTROLS = """
#[no_mangle] #[inline(never)]
pub fn ctl__loop_const(a: u64) -> u64 { let mut x = a; for i in 0..37u64 { x = x.rotate_left(3) ^ i; } x }
#[no_mangle] #[inline(never)]
pub fn ctl__loop_linear(a: u64) -> u64 { let mut x = a; let mut n = 0u64; while x > 7 { x -= 7; n = n.wrapping_mul(3) ^ x; } n }
#[no_mangle] #[inline(never)]
pub fn ctl__loop_runtime(a: u64, n: u32) -> u64 { let mut x = a; for i in 0..n.min(50) { x = x.rotate_left(7) ^ (i as u64); } x }
#[no_mangle] #[inline(never)]
pub fn ctl__loop_halving(a: u64) -> u64 { let mut x = a; let mut n = 0u64; while x >= 2 { x = (x >> 1) + (x & 1); n = n.wrapping_add(1); } n }
"""
