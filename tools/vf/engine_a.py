"""Engine A: may-panic effect analysis over optimised monomorphic LLVM IR.

For every root the call graph is walked through the functions compiled from
the repository and the harness (decided by the DICompileUnit of each
function); every call to a `noreturn` function is a *sink*.  What remains
after LLVM's own reasoning is the set of panic-capable constructs reachable
from that root for some argument values."""
import os
import re

from . import common as C
from . import llir

IGNORED_KINDS = ("ub_check", "alloc")


def classify_sink(dem, mod, call):
    """demangled callee name -> (kind, message)"""
    d = dem or ""
    m = re.search(r'panic_const::panic_const_(\w+)$', d)
    if m:
        w = m.group(1)
        if w.endswith("_overflow"):
            op = w[:-len("_overflow")]
            if op in ("div", "rem"):
                return "div_overflow", None
            return "overflow:" + op, None
        if w == "div_by_zero":
            return "div0", None
        if w == "rem_by_zero":
            return "rem0", None
        return "panic_const:" + w, None
    if re.search(r'core::panicking::panic_nounwind|core::panicking::panic_cannot_unwind|'
                 r'core::panicking::panic_in_cleanup|panic_null_pointer_dereference|'
                 r'panic_misaligned_pointer|panic_invalid_enum', d):
        return "ub_check", None
    if d == "core::panicking::panic":
        s = mod.call_string_args(call)
        if not s:
            s = mod.body_strings(mod.funcs.get(mod.resolve(call.callee)))
        return "assert", (s[0] if s else None)
    if d == "core::panicking::panic_fmt":
        return "assert_fmt", None
    if d.startswith("core::panicking::panic_explicit") or d.startswith("core::panicking::unreachable_display"):
        return "assert", "explicit panic"
    if d.startswith("core::panicking::assert_failed"):
        return "assert_eq", None
    if d == "core::panicking::panic_bounds_check":
        return "bounds", None
    if re.search(r'core::slice::index::slice_\w*fail|core::str::slice_error_fail|'
                 r'core::slice::index::\w*_fail|copy_from_slice::len_mismatch_fail|len_mismatch_fail', d):
        return "slice", None
    if d == "core::option::unwrap_failed":
        return "unwrap", None
    if d == "core::option::expect_failed":
        s = mod.call_string_args(call)
        if not s:
            s = mod.body_strings(mod.funcs.get(mod.resolve(call.callee)))
        return "expect", (s[0] if s else None)
    if d == "core::result::unwrap_failed":
        s = mod.call_string_args(call)
        return "unwrap_result", (s[0] if s else None)
    if re.search(r'alloc::alloc::handle_alloc_error|alloc::raw_vec::capacity_overflow|alloc::raw_vec::handle_error', d):
        return "alloc", None
    if re.search(r'std::panicking::begin_panic', d):
        s = mod.call_string_args(call)
        return "assert", (s[0] if s else None)
    return "other", d


NORM_RULES = [
    (re.compile(r'\bFixed[IU](?:8|16|32|64|128)\b'), lambda m: "FixedS" if m.group(0)[5] == "I" else "FixedU"),
    (re.compile(r'(?<![\w:])i(?:8|16|32|64|128|size)\b'), "iN"),
    (re.compile(r'(?<![\w:])u(?:8|16|32|64|128|size)\b'), "uN"),
    (re.compile(r'(?<![\w:])f(?:32|64)\b'), "fN"),
    (re.compile(r'\{\{closure\}\}'), "{closure}"),
    (re.compile(r"&('\w+ )?(mut )?"), ""),
]


def normalise_fn(path):
    """Function path used in keys: no hashes, no widths (macro instances of one
    source function share one key)."""
    p = path
    for rx, rep in NORM_RULES:
        p = rx.sub(rep, p)
    return p


class Analyser:
    def __init__(self, ll_path, harness_dir_prefix, p_names, repo=C.REPO):
        self.mod = llir.Module(ll_path)
        self.repo = repo.rstrip("/")
        self.hprefix = harness_dir_prefix
        self.p_names = set(p_names)
        mod = self.mod
        self.noreturn = set()
        for f in mod.funcs.values():
            if mod.func_has_attr(f, "noreturn"):
                self.noreturn.add(f.name)
        self._ours = {}
        self._frame_info = {}
        self._local = {}

    # -- which functions belong to the analysed program ----------------------
    def is_ours(self, f):
        r = self._ours.get(f.name)
        if r is not None:
            return r
        r = False
        if not f.is_decl and f.dbg is not None:
            sp = self.mod.md(f.dbg)
            ud = self.mod.unit_dir(sp) if sp.get("kind") == "DISubprogram" else None
            if ud is not None:
                d = ud[1]
                r = d == self.repo or d.startswith(self.repo + "/") or d.startswith(self.hprefix)
        self._ours[f.name] = r
        return r

    def frame_info(self, sid):
        """subprogram id -> (path, where)  where in {'crate','harness','lib'}"""
        r = self._frame_info.get(sid)
        if r is not None:
            return r
        sp = self.mod.md(sid) if sid is not None else {"kind": None}
        if sp.get("kind") != "DISubprogram":
            r = ("?", "lib", "")
        else:
            ln = sp.get("linkageName")
            path = llir.demangle_legacy(ln) if ln and ln.startswith("_ZN") else sp.get("name", "?")
            fn, d = self.mod.file_of(sp)
            full = fn if fn.startswith("/") else os.path.join(d, fn)
            if full.startswith(self.repo + "/"):
                where = "crate"
            elif full.startswith(self.hprefix):
                where = "harness"
            else:
                where = "lib"
            r = (path, where, os.path.relpath(full, self.repo) if where == "crate" else full)
        self._frame_info[sid] = r
        return r

    def is_p_frame(self, path):
        """documented-panicking public operation of a Fixed type (class P)"""
        if "Wrapping" in path:
            return False
        last = path.rsplit("::", 1)[-1]
        if last not in self.p_names:
            return False
        if re.search(r'substrate_fixed::Fixed[IU]\d+<\w+>::\w+$', path):
            return True
        if re.search(r"<impl core::(ops|iter)::.* for &?('\w+ )?substrate_fixed::Fixed[IU]\d+<\w+>>::\w+$", path):
            return True
        if re.search(r'<impl substrate_fixed::traits::(ToFixed|FromFixed|Fixed|FixedSigned|FixedUnsigned) for [^>]*>::\w+$', path):
            return True
        if re.search(r'<.* as substrate_fixed::traits::(ToFixed|FromFixed|Fixed|FixedSigned|FixedUnsigned)>::\w+$', path):
            return True
        return False

    # -- per function: sinks, callees ----------------------------------------
    def local(self, f):
        r = self._local.get(f.name)
        if r is not None:
            return r
        sinks, calls, libs, indirect = [], [], set(), 0
        mod = self.mod
        for c in f.calls:
            if c.indirect:
                indirect += 1
                continue
            tgt = mod.resolve(c.callee)
            g = mod.funcs.get(tgt)
            if tgt in self.noreturn or mod.call_site_has_attr(c, "noreturn"):
                dem = g.demangled if g is not None and g.demangled else llir.demangle_legacy(tgt)
                kind, msg = classify_sink(dem, mod, c)
                sinks.append((c, kind, msg))
                continue
            if g is None:
                libs.add(tgt)
                continue
            if self.is_ours(g):
                calls.append((c, g))
            else:
                libs.add(g.demangled or tgt)
        r = (sinks, calls, libs, indirect)
        self._local[f.name] = r
        return r

    # -- per root ---------------------------------------------------------------
    def analyse_root(self, sym):
        mod = self.mod
        name = mod.resolve(sym)
        f = mod.funcs.get(name)
        if f is None or f.is_decl:
            return None
        reach = {f.name: f}
        order = [f]
        incoming = {}
        i = 0
        while i < len(order):
            g = order[i]
            i += 1
            _s, calls, _l, _i = self.local(g)
            for (c, h) in calls:
                incoming.setdefault(h.name, []).append((g, c))
                if h.name not in reach:
                    reach[h.name] = h
                    order.append(h)
        sites = []
        libs = set()
        indirect = 0
        for g in order:
            sinks, _c, l, ind = self.local(g)
            libs |= l
            indirect += ind
            for (c, kind, msg) in sinks:
                if kind in IGNORED_KINDS:
                    continue
                frames = mod.frames(c.dbg)
                for (attr, via, chain, pos) in self._attribute(g, frames, incoming, f, set()):
                    sites.append({"kind": kind, "msg": msg, "fn": attr, "via": list(via),
                                  "chain": " <- ".join(chain), "pos": pos})
        uniq = {}
        for st in sites:
            uniq.setdefault((st["fn"], st["kind"], st["msg"], tuple(st["via"]), st["pos"]), st)
        sites = list(uniq.values())
        return {"alias_of": name if name != sym else None, "sites": sites,
                "libs": sorted(libs), "indirect": indirect, "nfuncs": len(order)}

    def _scan(self, frames):
        """walk frames innermost -> outermost; returns (attr or None, via, chain, pos)"""
        via = []
        chain = []
        for (sid, line, col) in frames:
            path, where, file = self.frame_info(sid)
            chain.append("%s:%s(%s)" % (file.rsplit("/", 1)[-1] if where != "crate" else file, line,
                                        path.rsplit("::", 1)[-1]))
            if where == "lib":
                continue
            if where == "harness":
                return "ROOT", via, chain, "root"
            if self.is_p_frame(path):
                v = path.rsplit("::", 1)[-1]
                if v not in via:
                    via.append(v)
                continue
            return normalise_fn(path), via, chain, "%s:%s:%s" % (file, line, col)
        return None, via, chain, None

    def _attribute(self, g, frames, incoming, root, visiting):
        attr, via, chain, pos = self._scan(frames)
        if attr is not None:
            return [(attr, tuple(via), chain, pos)]
        if g.name == root.name:
            return [("ROOT", tuple(via), chain, "root")]
        if g.name in visiting:
            return []
        visiting = visiting | {g.name}
        out = []
        seen = set()
        for (caller, c) in incoming.get(g.name, []):
            for (a2, v2, ch2, pos2) in self._attribute(caller, self.mod.frames(c.dbg), incoming, root, visiting):
                v = tuple(via) + tuple(x for x in v2 if x not in via)
                if (a2, v, pos2) in seen:
                    continue
                seen.add((a2, v, pos2))
                out.append((a2, v, chain + ch2, pos2))
        if not out:
            out.append(("?" + (g.demangled or g.name), tuple(via), chain, "?"))
        return out


def norm_via(via):
    """`a op= b` reaches the operator through one more forwarding frame than `a = a op b`; both are the same
    operation, so the assigning frame is folded into the plain one"""
    out = []
    for v in via:
        if v.endswith("_assign") and v[:-7] in ("add", "sub", "mul", "div", "rem", "shl", "shr", "bitand", "bitor", "bitxor"):
            v = v[:-7]
        if v not in out:
            out.append(v)
    return out


def normalise_key(k):
    if " | via " not in k:
        return k
    head, via = k.rsplit(" | via ", 1)
    return head + " | via " + "+".join(norm_via(via.split("+")))


def site_key(s):
    k = s["fn"] + " | " + s["kind"]
    if s.get("msg"):
        k += " | " + s["msg"]
    if s.get("via"):
        k += " | via " + "+".join(norm_via(s["via"]))
    return k


def analyse_crate(ll_path, root_syms, hprefix, p_names):
    an = Analyser(ll_path, hprefix, p_names)
    out = {}
    for s in root_syms:
        out[s] = an.analyse_root(s)
    return out
