"""Build + analyse + cache: the bridge between the plan and the engines."""
import json
import os
import time
from concurrent.futures import ProcessPoolExecutor

from . import api as A
from . import build as B
from . import common as C
from . import engine_a
from . import gen as G

HERE = os.path.dirname(os.path.abspath(__file__))


def p_names(api):
    """names of the documented-panicking public operations (class P)"""
    names = set()
    for s in api.fixed_structs():
        for im in api.impls[s]:
            if im.trait is not None:
                continue
            for it in im.raw["items"]:
                f = api.idx.get(str(it))
                if f is None or "function" not in f["inner"] or f["visibility"] != "public":
                    continue
                m = A.Method(f)
                try:
                    ret = G.render(m.output, {"Self": "X", "Frac": A.Layout("I16F16"), "Src": "i32", "Dst": "i32"})
                except G.Mismatch:
                    ret = ""
                cls, _g, _f = G.classify(m.name, ret, G.doc_facts(f.get("docs")))
                if cls == "P":
                    names.add(m.name)
    for tr, (meth, _a, _u) in G.OP_TRAITS.items():
        if meth not in ("not", "bitand", "bitor", "bitxor", "bitand_assign", "bitor_assign", "bitxor_assign"):
            names.add(meth)
    names |= {"to_fixed", "from_fixed", "sum", "product"}
    return names


def _analyse_one(args):
    ll, syms, hprefix, pn, repo = args
    an = engine_a.Analyser(ll, hprefix, pn, repo=repo)
    out = {}
    for s in syms:
        out[s] = an.analyse_root(s)
    return out


def engine_a_facts(cfg, crates, api, workers=None):
    """-> {sym: {"meta": root meta, "res": analysis result or None, "crate": name}}"""
    t0 = time.time()
    built = B.build(cfg, crates)
    pn = sorted(p_names(api))
    astamp = C.file_hash(os.path.join(HERE, "engine_a.py"), os.path.join(HERE, "llir.py"))
    jobs = []
    results = {}
    for cr in crates:
        ll = built[cr.name]["ll"]
        fpath = ll[:-3] + ".A.json"
        with open(ll + ".stamp") as fh:
            stamp = C.text_hash(fh.read(), astamp, json.dumps(pn))
        syms = [r.sym for r in cr.roots if r.sym not in built[cr.name]["dropped"]]
        syms += ["ctl__pos_add", "ctl__neg_shift", "ctl__pos_index", "ctl__pos_unwrap", "ctl__pos_div"]
        if C.stamp_ok(fpath, stamp):
            results[cr.name] = C.load_json(fpath)
        else:
            jobs.append((cr.name, fpath, stamp, (ll, syms, os.path.join(C.WORK, "ws") + "/", pn, C.REPO)))
    if jobs:
        C.log("[A] analysing %d crate(s) ..." % len(jobs))
        with ProcessPoolExecutor(max_workers=workers or min(16, os.cpu_count() or 4)) as ex:
            for (name, fpath, stamp, _a), res in zip(jobs, ex.map(_analyse_one, [j[3] for j in jobs])):
                C.save_json(fpath, res, indent=None)
                C.write_stamp(fpath, stamp)
                results[name] = res
    out = {}
    for cr in crates:
        res = results[cr.name]
        dropped = built[cr.name]["dropped"]
        for r in cr.roots:
            out[r.sym] = {"meta": r.meta(), "res": res.get(r.sym), "crate": cr.name,
                          "dropped": dropped.get(r.sym)}
        for c in ("ctl__pos_add", "ctl__neg_shift", "ctl__pos_index", "ctl__pos_unwrap", "ctl__pos_div"):
            out[cr.name + "::" + c] = {"meta": {"sym": c, "cls": "CTL", "group": "ctl", "layout": "-",
                                                 "api": c, "float_msgs": [], "guard": None},
                                       "res": res.get(c), "crate": cr.name, "dropped": None}
    C.log("[A] facts for %d roots in %.1fs" % (len(out), time.time() - t0))
    return out
