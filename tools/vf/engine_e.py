"""Engine E: equality of two harness roots after the real release pipeline.

`equal(a, b)` holds when LLVM's MergeFunctions already folded one root into an
alias of the other, or when the two bodies have the same *graph canonical
form*: values are identified by the expression DAG that computes them
(commutative operands sorted, names, instruction order inside a block, flags
and metadata ignored), side effects and terminators are kept in order.
Equality is sufficient, never necessary: a pair that does not normalise is
`undecided`, not wrong."""
import re

from . import llir

DROP_WORDS = {
    "nuw", "nsw", "exact", "samesign", "disjoint", "nneg", "inbounds", "nusw", "tail", "musttail",
    "notail", "noundef", "nonnull", "fastcc", "zeroext", "signext", "noalias", "readonly", "writeonly",
    "nocapture", "dead_on_unwind", "writable", "nofpclass", "fast", "nnan", "ninf", "nsz", "arcp",
    "contract", "afn", "reassoc", "volatile", "unnamed_addr", "local_unnamed_addr", "returned",
}
COMMUTATIVE = {"add", "mul", "and", "or", "xor", "fadd", "fmul"}
COMMUTATIVE_CALLS = ("llvm.sadd.with.overflow", "llvm.uadd.with.overflow", "llvm.smul.with.overflow",
                     "llvm.umul.with.overflow", "llvm.sadd.sat", "llvm.uadd.sat", "llvm.smax", "llvm.smin",
                     "llvm.umax", "llvm.umin")
PURE_CALLS = ("llvm.sadd.", "llvm.uadd.", "llvm.ssub.", "llvm.usub.", "llvm.smul.", "llvm.umul.",
              "llvm.ctlz.", "llvm.cttz.", "llvm.ctpop.", "llvm.fshl.", "llvm.fshr.", "llvm.bswap.",
              "llvm.bitreverse.", "llvm.smax.", "llvm.smin.", "llvm.umax.", "llvm.umin.", "llvm.abs.",
              "llvm.sshl.sat", "llvm.ushl.sat", "llvm.scmp.", "llvm.ucmp.", "llvm.is.fpclass", "llvm.fabs.")
IGNORED_CALLS = ("llvm.assume", "llvm.lifetime.", "llvm.dbg.", "llvm.experimental.noalias.scope",
                 "llvm.donothing")
RE_TOKEN = re.compile(r'%"[^"]+"|%[\w.$-]+|@"[^"]+"|@[\w.$-]+|![\w.]+|"[^"]*"|[A-Za-z_][\w.]*|-?\d+(?:\.\d+)?(?:e[+-]?\d+)?|0x[0-9A-Fa-f]+|\S')
RE_LABEL = re.compile(r'^("[^"]+"|[\w.$-]+):')


class Unsupported(Exception):
    pass


def strip_meta(s):
    """remove trailing metadata attachments and attribute-group references"""
    s = re.sub(r',\s*![\w.]+\s+![\w.{}]+', '', s)
    s = re.sub(r',\s*![\w.]+\s+!\{[^}]*\}', '', s)
    s = re.sub(r'\s#\d+', '', s)
    s = re.sub(r'\b(range|captures|dereferenceable|dereferenceable_or_null|align|initializes|memory|sret|byval|nofpclass)\((?:[^()]|\([^()]*\))*\)', '', s)
    s = re.sub(r',?\s*align \d+', '', s)
    return s.strip()


class Canon:
    def __init__(self, mod, fname, intern):
        self.mod = mod
        self.f = mod.funcs[mod.resolve(fname)]
        self.intern = intern
        self._parse()

    def _id(self, obj):
        t = self.intern
        v = t.get(obj)
        if v is None:
            v = t[obj] = len(t) + 1
        return v

    def _parse(self):
        lines = self.mod.body(self.f)
        head = lines[0]
        m = llir.RE_DEFINE.match(head)
        end = self.mod._sig_end(head, m.end() - 1)
        params = head[m.end():end - 1]
        self.args = {}
        self.arg_types = []
        for i, p in enumerate(_split_top(params)):
            p = strip_meta(" " + p + " ").strip()
            toks = [t for t in p.split() if t not in DROP_WORDS]
            name = None
            if toks and toks[-1].startswith("%"):
                name = toks.pop()
            self.arg_types.append(" ".join(toks))
            if name:
                self.args[name] = i
        self.blocks = {}
        self.order = []
        cur = None
        pending = None
        for ln in lines[1:-1]:
            if not ln.strip() or ln.lstrip().startswith(";"):
                continue
            lm = RE_LABEL.match(ln)
            if lm and not ln.startswith(" "):
                cur = lm.group(1).strip('"')
                self.blocks[cur] = []
                self.order.append(cur)
                continue
            if cur is None:
                cur = "<entry>"
                self.blocks[cur] = []
                self.order.append(cur)
            s = ln.strip()
            # multi-line switch: join until the closing bracket
            if pending is not None:
                pending += " " + s
                if s.startswith("]"):
                    self.blocks[cur].append(pending)
                    pending = None
                continue
            if s.startswith("switch ") and s.endswith("["):
                pending = s
                continue
            self.blocks[cur].append(s)
        self.defs = {}
        for b, ins in self.blocks.items():
            for s in ins:
                m = re.match(r'^(%"[^"]+"|%[\w.$-]+) = (.*)$', s)
                if m:
                    self.defs[m.group(1)] = (b, m.group(2))
        # block indices by DFS over successors in branch-operand order
        self.bidx = {}
        stack = [self.order[0]]
        while stack:
            b = stack.pop()
            if b in self.bidx or b not in self.blocks:
                continue
            self.bidx[b] = len(self.bidx)
            term = self.blocks[b][-1] if self.blocks[b] else ""
            succ = [x.strip('%"') for x in re.findall(r'label (%"[^"]+"|%[\w.$-]+)', term)]
            for t in reversed(succ):
                stack.append(t)
        self._memo = {}
        self._visiting = set()

    # -- values ---------------------------------------------------------------
    def value(self, tok):
        """canonical id of an operand token"""
        if tok.startswith("%"):
            if tok in self.args:
                return self._id(("arg", self.args[tok]))
            name = tok[1:].strip('"')
            if name in self.blocks and tok not in self.defs:
                return self._id(("label", self.bidx.get(name, -1)))
            return self.expr(tok)
        if tok.startswith("@"):
            return self._id(("global", self.mod.resolve(tok[1:].strip('"'))))
        return self._id(("tok", tok))

    def expr(self, name):
        v = self._memo.get(name)
        if v is not None:
            return v
        if name in self._visiting:
            raise Unsupported("cyclic value (loop) " + name)
        d = self.defs.get(name)
        if d is None:
            raise Unsupported("undefined value " + name)
        self._visiting.add(name)
        b, rhs = d
        v = self._instr(rhs, b, defining=name)
        self._visiting.discard(name)
        self._memo[name] = v
        return v

    def _instr(self, rhs, block, defining=None):
        rhs = strip_meta(rhs)
        toks = [t for t in RE_TOKEN.findall(rhs) if t not in DROP_WORDS]
        if not toks:
            return self._id(("empty",))
        op = toks[0]
        if op == "phi":
            pairs = re.findall(r'\[\s*([^,\]]+?)\s*,\s*(%"[^"]+"|%[\w.$-]+)\s*\]', rhs)
            ty = rhs[len("phi"):rhs.index("[")].strip()
            inc = []
            for (val, blk) in pairs:
                vt = val.strip()
                if vt in ("undef", "poison"):
                    continue          # don't-care value (e.g. the payload of None)
                inc.append((self.bidx.get(blk[1:].strip('"'), -1), self.value(vt) if vt[0] in "%@" else self._id(("tok", vt))))
            inc.sort()
            if inc and len({v for (_b, v) in inc}) == 1 and len(inc) < len(pairs):
                return inc[0][1]
            return self._id(("phi", ty, tuple(inc)))
        if op == "load" and defining is not None and hasattr(self, "_memver"):
            operands = [self.value(t) for t in toks if t[0] in "%@"]
            shape = ["$" if t[0] in "%@" else t for t in toks if not t.startswith("!")]
            return self._id(("load", " ".join(shape), tuple(operands), self._memver.get(defining, (-1, -1))))
        if op == "call" and "@llvm.abs." in rhs:
            args = [t for t in toks if t[0] == "%"]
            if len(args) == 1:
                return self._id(("abs", self.value(args[0])))
        if op == "select" and len(toks) >= 2:
            # select (icmp slt x, 0), (sub 0, x), x  ->  abs(x)
            pa = _split_top(rhs[len("select"):])
            if len(pa) == 3:
                c, t1, t2 = [pp.strip().split()[-1] for pp in pa]
                t1 = self._peel(t1)
                cd = self.defs.get(c, (None, ""))[1]
                td = self.defs.get(t1, (None, ""))[1]
                mc = re.match(r'^icmp (?:samesign )?slt i\d+ (%[\w.$-]+), 0$', strip_meta(cd))
                mt = re.match(r'^sub (?:nsw )?(?:nuw )?i\d+ 0, (%[\w.$-]+)$', strip_meta(td))
                if mc and mt and mc.group(1) == mt.group(1) == t2:
                    return self._id(("abs", self.value(t2)))
        if op == "select" and len(toks) >= 2:
            # select i1 %c, T %x, T undef  ->  %x   (don't-care arm)
            parts = _split_top(rhs[len("select"):])
            if len(parts) == 3:
                arms = [pp.strip().split()[-1] for pp in parts[1:]]
                if arms[1] in ("undef", "poison") and arms[0] not in ("undef", "poison"):
                    return self.value(arms[0]) if arms[0][0] in "%@" else self._id(("tok", parts[1].strip()))
                if arms[0] in ("undef", "poison") and arms[1] not in ("undef", "poison"):
                    return self.value(arms[1]) if arms[1][0] in "%@" else self._id(("tok", parts[2].strip()))
        if op in ("load", "alloca") or (op in ("call", "invoke") and not self._pure_call(toks)):
            # ordered side effect: identified by its position in the effect sequence
            if defining is None:
                raise Unsupported("side effect without position")
            return self._id(("effect", self._effect_pos.get(defining, -1))) if hasattr(self, "_effect_pos") \
                else self._id(("effect?", defining))
        shape = []
        operands = []
        for t in toks:
            if t[0] in "%@":
                operands.append(self.value(t))
                shape.append("$")
            elif t.startswith("!"):
                continue
            else:
                shape.append(t)
        commut = op in COMMUTATIVE or (op == "icmp" and len(toks) > 1 and toks[1] in ("eq", "ne")) or \
            (op == "call" and any(c in rhs for c in COMMUTATIVE_CALLS))
        if commut and len(operands) == 2 and "".join(shape).count("$,$") == 1:
            operands.sort()
        elif commut and op == "call" and len(operands) == 3:
            # callee global + two value operands
            g, a, b = operands
            operands = [g] + sorted([a, b])
        return self._id((" ".join(shape), tuple(operands)))

    def _peel(self, tok):
        """look through `select c, x, undef`"""
        for _ in range(4):
            d = self.defs.get(tok)
            if d is None:
                return tok
            rhs = strip_meta(d[1])
            if not rhs.startswith("select"):
                return tok
            pa = _split_top(rhs[len("select"):])
            if len(pa) != 3:
                return tok
            a1, a2 = pa[1].strip().split()[-1], pa[2].strip().split()[-1]
            if a2 in ("undef", "poison") and a1.startswith("%"):
                tok = a1
            elif a1 in ("undef", "poison") and a2.startswith("%"):
                tok = a2
            else:
                return tok
        return tok

    @staticmethod
    def _pure_call(toks):
        for t in toks:
            if t.startswith("@"):
                n = t[1:].strip('"')
                return n.startswith(PURE_CALLS)
        return False

    # -- whole function ---------------------------------------------------------
    def form(self):
        # effect order: number side-effecting instructions per block in order
        self._effect_pos = {}
        self._memver = {}
        effects = {}
        for b in self.order:
            if b not in self.bidx:
                continue
            seq = []
            for k, s in enumerate(self.blocks[b][:-1] if self.blocks[b] else []):
                m = re.match(r'^(%"[^"]+"|%[\w.$-]+) = (.*)$', s)
                name, rhs = (m.group(1), m.group(2)) if m else (None, s)
                rs = strip_meta(rhs)
                toks = [t for t in RE_TOKEN.findall(rs) if t not in DROP_WORDS]
                op = toks[0] if toks else ""
                if op in ("call", "invoke"):
                    callee = next((t[1:].strip('"') for t in toks if t.startswith("@")), "")
                    if callee.startswith(IGNORED_CALLS):
                        continue
                    if self._pure_call(toks):
                        continue
                elif op == "load":
                    # a load commutes with other loads: it is a function of the pointer and of
                    # the number of writes that precede it in its block
                    if name:
                        self._memver[name] = (self.bidx[b], len(seq))
                    continue
                elif op not in ("store", "alloca", "fence", "atomicrmw", "cmpxchg"):
                    continue
                if name:
                    self._effect_pos[name] = (self.bidx[b], len(seq))
                seq.append((name, rs, toks))
            effects[b] = seq
        out = [("args", tuple(self.arg_types))]
        for b in sorted(self.bidx, key=lambda x: self.bidx[x]):
            items = []
            for (name, rs, toks) in effects.get(b, []):
                shape, ops = [], []
                for t in toks:
                    if t[0] in "%@":
                        ops.append(self.value(t))
                        shape.append("$")
                    elif not t.startswith("!"):
                        shape.append(t)
                items.append(self._id(("fx", " ".join(shape), tuple(ops))))
            term = self.blocks[b][-1] if self.blocks[b] else "unreachable"
            ts = strip_meta(term)
            toks = [t for t in RE_TOKEN.findall(ts) if t not in DROP_WORDS]
            shape, ops = [], []
            for t in toks:
                if t[0] in "%@":
                    ops.append(self.value(t))
                    shape.append("$")
                elif not t.startswith("!"):
                    shape.append(t)
            items.append(self._id(("term", " ".join(shape), tuple(ops))))
            out.append((self.bidx[b], tuple(items)))
        return tuple(out)


def _split_top(s):
    out, cur, depth, inq = [], "", 0, False
    for ch in s:
        if inq:
            cur += ch
            if ch == '"':
                inq = False
        elif ch == '"':
            inq = True
            cur += ch
        elif ch in "([{<":
            depth += 1
            cur += ch
        elif ch in ")]}>":
            depth -= 1
            cur += ch
        elif ch == "," and depth == 0:
            out.append(cur)
            cur = ""
        else:
            cur += ch
    if cur.strip():
        out.append(cur)
    return out


def is_trivial(mod, fname):
    """body is just `unreachable` (both sides vacuous) -> not acceptable as evidence"""
    f = mod.funcs.get(mod.resolve(fname))
    if f is None or f.is_decl:
        return True
    body = [l.strip() for l in mod.body(f)[1:-1] if l.strip() and not l.strip().startswith(";")]
    body = [l for l in body if not RE_LABEL.match(l)]
    return len(body) == 1 and body[0].startswith("unreachable")


def compare(mod, a, b):
    """-> (verdict, how) verdict in equal | different | undecided"""
    ra, rb = mod.resolve(a), mod.resolve(b)
    fa, fb = mod.funcs.get(ra), mod.funcs.get(rb)
    if fa is None or fb is None or fa.is_decl or fb.is_decl:
        return "undecided", "root missing from IR"
    if is_trivial(mod, a) or is_trivial(mod, b):
        return "undecided", "a body is `unreachable` only (vacuous)"
    if ra == rb:
        return "equal", "MergeFunctions alias"
    intern = {}
    try:
        ca = Canon(mod, a, intern).form()
        cb = Canon(mod, b, intern).form()
    except Unsupported as e:
        return "undecided", "canonicaliser: %s" % e
    except Exception as e:          # parser limits are 'undecided', never a verdict
        return "undecided", "canonicaliser error: %r" % (e,)
    if ca == cb:
        return "equal", "graph canonical form"
    # second normal form: if-converted terms with decision diagrams over threshold atoms (engine_e2)
    from . import engine_e2
    try:
        if engine_e2.compare(mod, a, b):
            return "equal", "term normal form"
    except engine_e2.Unsupported:
        pass
    except RecursionError:
        pass
    except Exception:               # parser limits are never a verdict
        pass
    return "different", "bodies differ after normalisation"
