"""Engine T: type-level availability probes.

`From<Src> for Dst` / `LossyFrom<Src> for Dst` must exist only where the
conversion cannot overflow (and, for From, loses nothing).  A generated crate
asserts at compile time -- through trait selection, not by running library
code -- that no impl exists for any pair the arithmetic specification calls
unsafe; if one exists the crate fails to build and the failing assertion
names the pair."""
import json
import os
import re
import shutil
import time

from . import api as A
from . import common as C

PRELUDE = """#![allow(dead_code, non_camel_case_types, unused_imports)]
use substrate_fixed::types::*;
use substrate_fixed::traits::LossyFrom;
use core::marker::PhantomData;
pub struct P<D, S>(PhantomData<(D, S)>);
pub struct Q<D, S>(PhantomData<(D, S)>);
pub trait Fb { const V: bool = false; }
impl<T> Fb for T {}
impl<D: From<S>, S> P<D, S> { pub const V: bool = true; }
impl<D: LossyFrom<S>, S> Q<D, S> { pub const V: bool = true; }
// controls on std types: the probe must say yes and no where the answer is known
const _: () = assert!(<P<i64, i32>>::V);
const _: () = assert!(!<P<i32, i64>>::V);
const _: () = assert!(<P<u16, bool>>::V);
const _: () = assert!(!<Q<i32, i64>>::V);
"""


class Ty:
    """layout view of a fixed alias or primitive: signed, int bits, frac bits"""
    __slots__ = ("name", "signed", "int", "frac", "kind", "width")

    def __init__(self, name):
        self.name = name
        m = re.match(r"^([IU])(\d+)F(\d+)$", name)
        if m:
            self.kind = "fixed"
            self.signed = m.group(1) == "I"
            self.int, self.frac = int(m.group(2)), int(m.group(3))
            self.width = self.int + self.frac
            return
        m = re.match(r"^([iu])(8|16|32|64|128)$", name)
        if m:
            self.kind = "int"
            self.signed = m.group(1) == "i"
            self.int, self.frac = int(m.group(2)), 0
            self.width = self.int
            return
        if name == "bool":
            self.kind, self.signed, self.int, self.frac, self.width = "int", False, 1, 0, 1
            return
        if name in ("f32", "f64"):
            self.kind, self.signed, self.int, self.frac = "float", True, 0, 0
            self.width = 24 if name == "f32" else 53
            return
        raise ValueError(name)


def from_is_safe(src, dst):
    """value-preserving for every source value (arithmetic specification)"""
    if src.kind == "float":
        return False                     # a float into a fixed/int type can always overflow or lose bits
    if dst.kind == "float":
        return src.width - (1 if src.signed else 0) <= dst.width
    if src.signed and not dst.signed:
        return False
    need_int = src.int + (1 if (not src.signed and dst.signed) else 0)
    return dst.frac >= src.frac and dst.int >= need_int


def lossy_is_safe(src, dst):
    """loses fractional bits only"""
    if src.kind == "float" or dst.kind == "float":
        return None                      # not specified by the property (rounding conversion)
    if src.signed and not dst.signed:
        return False
    need_int = src.int + (1 if (not src.signed and dst.signed) else 0)
    return dst.int >= need_int


def isize_names():
    return []


def probe_pairs(tier):
    """-> list of (trait, src name, dst name) for pairs the spec calls unsafe"""
    fixed = [l.name for l in A.all_layouts()]
    prims = ["i8", "i16", "i32", "i64", "i128", "u8", "u16", "u32", "u64", "u128", "bool", "f32", "f64"]
    out = []
    T = {n: Ty(n) for n in fixed + prims}
    if tier == "thorough":
        for s in fixed:
            for d in fixed:
                if s == d:
                    continue
                if not from_is_safe(T[s], T[d]):
                    out.append(("From", s, d))
                if lossy_is_safe(T[s], T[d]) is False:
                    out.append(("LossyFrom", s, d))
    else:
        # for every source and destination family the minimal unsafe destinations:
        # one fraction bit too few, one integer bit too few, and signed -> unsigned
        for s in fixed:
            ts = T[s]
            for (dsig, dw) in A.FAMILIES:
                cands = set()
                need_int = ts.int + (1 if (not ts.signed and dsig) else 0)
                for df in (ts.frac - 1, dw - (need_int - 1), dw - need_int, ts.frac, 0, dw):
                    if 0 <= df <= dw:
                        cands.add(df)
                for df in sorted(cands):
                    d = A.layout_name(dsig, dw, df)
                    if d == s:
                        continue
                    if not from_is_safe(ts, T[d]):
                        out.append(("From", s, d))
                    if lossy_is_safe(ts, T[d]) is False:
                        out.append(("LossyFrom", s, d))
    # primitives in both directions (always exhaustive: 13 x 506 x 2)
    for p in prims:
        for f in fixed:
            if not from_is_safe(T[p], T[f]):
                out.append(("From", p, f))
            if lossy_is_safe(T[p], T[f]) is False:
                out.append(("LossyFrom", p, f))
            if not from_is_safe(T[f], T[p]):
                out.append(("From", f, p))
            if lossy_is_safe(T[f], T[p]) is False:
                out.append(("LossyFrom", f, p))
    seen = set()
    uniq = []
    for x in out:
        if x not in seen:
            seen.add(x)
            uniq.append(x)
    return uniq


def _crate_text(pairs):
    lines = [PRELUDE]
    base = PRELUDE.count("\n") + 1
    for (tr, s, d) in pairs:
        w = "P" if tr == "From" else "Q"
        lines.append("const _: () = assert!(!<%s<%s, %s>>::V);\n" % (w, d, s))
    return "".join(lines), base


def run(report, tier, label, ncrates=16):
    pairs = probe_pairs(tier)
    # the verdict depends only on the sources and on the probe set: cache it per source hash
    cpath = os.path.join(C.hash_dir(), "T.%s.json" % tier)
    with open(os.path.abspath(__file__), "rb") as fh:
        import hashlib
        stamp = C.text_hash(C.source_hash(), hashlib.sha256(fh.read()).hexdigest(), str(len(pairs)))
    if C.stamp_ok(cpath, stamp):
        cached = C.load_json(cpath)
        failing = [tuple(x) for x in cached["failing"]]
        n = cached["crates"]
        return _report(report, label, tier, pairs, failing, n)
    failing, n = _probe(pairs, ncrates)
    C.save_json(cpath, {"failing": failing, "crates": n}, indent=None)
    C.write_stamp(cpath, stamp)
    return _report(report, label, tier, pairs, failing, n)


def _probe(pairs, ncrates):
    ws = os.path.join(C.WORK, "ws", "probe")
    cdir = os.path.join(ws, "crates")
    with C.Lock("build-probe"):
        if os.path.isdir(cdir):
            shutil.rmtree(cdir)
        os.makedirs(cdir)
        with open(os.path.join(ws, "Cargo.toml"), "w") as fh:
            fh.write('[workspace]\nmembers = ["crates/*"]\nresolver = "2"\n')
        lock_src = os.path.join(C.REPO, "Cargo.lock")
        if os.path.isfile(lock_src):
            shutil.copyfile(lock_src, os.path.join(ws, "Cargo.lock"))
        n = min(ncrates, max(1, len(pairs) // 2000 + 1))
        per = (len(pairs) + n - 1) // n
        index = {}
        for i in range(n):
            chunk = pairs[i * per:(i + 1) * per]
            name = "probe_%d" % i
            d = os.path.join(cdir, name)
            os.makedirs(os.path.join(d, "src"))
            with open(os.path.join(d, "Cargo.toml"), "w") as fh:
                fh.write('[package]\nname = "%s"\nversion = "0.0.0"\nedition = "2021"\n\n[dependencies]\n'
                         'substrate-fixed = { path = "%s" }\n' % (name, C.REPO))
            text, base = _crate_text(chunk)
            with open(os.path.join(d, "src", "lib.rs"), "w") as fh:
                fh.write(text)
            index[name] = (base, chunk)
        t0 = time.time()
        C.log("[T] cargo check of %d probe crate(s), %d probes ..." % (n, len(pairs)))
        p = C.run(["cargo", "check", "--offline", "--keep-going", "--message-format=json",
                   "-j", str(os.cpu_count() or 8)], cwd=ws,
                  env={"CARGO_TARGET_DIR": os.path.join(C.WORK, "target-probe"), "RUSTFLAGS": "-Awarnings"},
                  check=False)
        C.log("[T] cargo check finished in %.1fs (exit %d)" % (time.time() - t0, p.returncode))
    failing = []
    other_errors = []
    for line in p.stdout.splitlines():
        if not line.startswith("{"):
            continue
        try:
            msg = json.loads(line)
        except ValueError:
            continue
        if msg.get("reason") != "compiler-message":
            continue
        m = msg["message"]
        if m.get("level") != "error":
            continue
        tgt = msg.get("target", {}).get("name", "")
        if tgt not in index:
            continue
        base, chunk = index[tgt]
        hit = False
        for sp in m.get("spans", []):
            k = sp["line_start"] - base
            if 0 <= k < len(chunk) and sp.get("file_name", "").endswith("lib.rs"):
                failing.append(chunk[k])
                hit = True
                break
        if not hit and "aborting due to" not in m.get("message", ""):
            other_errors.append(m.get("message", "")[:200])
    failing = [list(x) for x in failing]
    if p.returncode != 0 and not failing:
        from .run_a import EngineError
        raise EngineError("probe crates failed to build for a reason other than a probe: %s" % (other_errors[:3] or p.stderr[-500:]))
    return failing, n


def _report(report, label, tier, pairs, failing, n):
    seen = set()
    for (tr, s, d) in failing:
        if (tr, s, d) in seen:
            continue
        seen.add((tr, s, d))
        ts, td = Ty(s), Ty(d)
        report.violation("T:" + label, "T|%s|%s->%s" % (tr, s, d),
                         "`impl %s<%s> for %s` exists although the conversion is not %s for every source value "
                         "(source: %s%d integer / %d fraction bits, destination: %s%d / %d)" % (
                             tr, s, d, "value-preserving" if tr == "From" else "limited to losing fraction bits",
                             "signed " if ts.signed else "unsigned ", ts.int, ts.frac,
                             "signed " if td.signed else "unsigned ", td.int, td.frac),
                         {"trait": tr, "src": s, "dst": d})
    samples = [{"probe": "assert!(!<%s<%s, %s>>::V)" % ("P" if tr == "From" else "Q", d, s),
                "meaning": "no `impl %s<%s> for %s`" % (tr, s, d)} for (tr, s, d) in pairs[:2] + pairs[len(pairs) // 2:len(pairs) // 2 + 1]]
    return {"engine": "T (compile-time trait-selection probes; a violating impl makes the probe crate fail to build)",
            "obligations": len(pairs), "discharged": len(pairs) - len(seen), "probe_crates": n,
            "controls": 4, "exhaustive": tier == "thorough", "samples": samples}
