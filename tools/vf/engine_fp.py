"""Fingerprints of allow-listed constructs (extension of Engine A).

An entry of tables/panic_triage.json is an infeasibility argument for one
*construct* (an arithmetic step, an index, an assertion).  The key names the
function and the kind of panic, not the construct, so an in-place edit of the
expression (`operand / 2 + 1` -> `(operand + 1) / 2`, `< 130` -> `< 128`)
would silently inherit the argument.  To tie the entry to the construct it
was argued for, each allow-listed site is located in the (generic,
layout-independent) MIR of the current tree and the expression tree that
feeds the panicking operation / its guard is rendered as a fingerprint:
locals are replaced by their defining expressions, user variables by their
names, types are dropped, commutative operands sorted.  A site whose
fingerprint is not among those recorded for its key is reported: the
construct changed, its argument must be made again."""
import os
import re

from . import common as C

RE_FN = re.compile(r"^fn (.*?)\((.*)\) -> (.*) \{$")
RE_BB = re.compile(r"^    (bb\d+)(?: \(cleanup\))?: \{$")
RE_SPAN = re.compile(r"// scope \d+ at (\S+?):(\d+):(\d+): (\d+):(\d+)\s*$")
RE_DEBUG = re.compile(r"^\s*debug (\w+) => (_\d+);")
RE_ASSIGN = re.compile(r"^(_\d+) = (.*)$")
RE_LOCAL = re.compile(r"_\d+")

OVERFLOW_MSG = {
    "overflow:add": "`{} + {}`", "overflow:sub": "`{} - {}`", "overflow:mul": "`{} * {}`",
    "overflow:neg": "attempt to negate", "overflow:shl": "attempt to shift left",
    "overflow:shr": "attempt to shift right", "div0": "attempt to divide",
    "rem0": "attempt to calculate the remainder", "div_overflow": "attempt to",
    "bounds": "index out of bounds",
}
COMMUTATIVE = ("Add", "Mul", "BitAnd", "BitOr", "BitXor", "AddWithOverflow", "MulWithOverflow", "Eq", "Ne",
               "Add::add", "Mul::mul")


def mir_spans_text():
    hd = C.hash_dir()
    out = os.path.join(hd, "mir_spans.txt")
    stamp = C.source_hash()
    if C.stamp_ok(out, stamp):
        return out
    with C.Lock("mir"):
        if C.stamp_ok(out, stamp):
            return out
        C.log("[FP] emitting MIR with spans ...")
        p = C.run(["cargo", "+nightly", "rustc", "--offline", "--lib", "--", "-Zunpretty=mir",
                   "-Zmir-include-spans=on", "-Awarnings"],
                  cwd=C.REPO, env={"CARGO_TARGET_DIR": os.path.join(C.WORK, "target-mir")})
        with open(out, "w") as fh:
            fh.write(p.stdout)
        C.write_stamp(out, stamp)
    return out


class Stmt:
    __slots__ = ("text", "file", "line", "col", "bb", "is_term")

    def __init__(self, text, file, line, col, bb, is_term):
        self.text, self.file, self.line, self.col, self.bb, self.is_term = text, file, line, col, bb, is_term


class Fn:
    def __init__(self, name):
        self.name = name
        self.blocks = {}          # bb -> [Stmt]
        self.debug = {}           # local -> user variable name
        self.defs = {}            # local -> [rhs text]
        self.nargs = 0
        self.preds = {}

    def finish(self):
        for bb, sts in self.blocks.items():
            if not sts:
                continue
            t = sts[-1].text
            for tgt in re.findall(r"\bbb\d+\b", t.split("->", 1)[1] if "->" in t else ""):
                self.preds.setdefault(tgt, []).append(bb)
            for st in sts:
                m = RE_ASSIGN.match(st.text)
                if m:
                    rhs = m.group(2)
                    rhs = re.sub(r"\s*->\s*(\[.*\]|unwind \w+|bb\d+).*$", "", rhs)
                    self.defs.setdefault(m.group(1), []).append(rhs)


class Mir:
    def __init__(self, path=None):
        path = path or mir_spans_text()
        self.rich = False         # render alternatives of multi-assigned variables and tuple aggregates
        self.fns = []
        self.by_line = {}         # (file, line) -> [(Fn, Stmt)]
        cur = None
        bb = None
        with open(path) as fh:
            for ln in fh:
                ln = ln.rstrip("\n")
                if cur is None:
                    m = RE_FN.match(ln)
                    if m:
                        cur = Fn(m.group(1))
                        cur.nargs = len(re.findall(r"_\d+: ", m.group(2)))
                        bb = None
                    continue
                if ln == "}":
                    cur.finish()
                    self.fns.append(cur)
                    cur = None
                    continue
                m = RE_DEBUG.match(ln)
                if m:
                    cur.debug.setdefault(m.group(2), m.group(1))
                    continue
                m = RE_BB.match(ln)
                if m:
                    bb = m.group(1)
                    cur.blocks[bb] = []
                    continue
                if bb is None or not ln.startswith("        ") or ln.lstrip().startswith("//"):
                    continue
                sp = RE_SPAN.search(ln)
                text = ln.split(" // scope ")[0].strip().rstrip(";").strip()
                if not text or text == "}":
                    continue
                if sp:
                    f, l, c = sp.group(1), int(sp.group(2)), int(sp.group(3))
                else:
                    f, l, c = "", 0, 0
                is_term = bool(re.match(r"^(_\d+ = .*\) -> |assert\(|switchInt\(|goto|return|unreachable|drop\(|.*-> (\[|unwind|bb))", text)) \
                    or text.startswith(("assert(", "switchInt(", "goto", "return", "unreachable"))
                st = Stmt(text, f, l, c, bb, is_term)
                cur.blocks[bb].append(st)
                if f.startswith("src/"):
                    self.by_line.setdefault((f, l), []).append((cur, st))

    # -- expression rendering ---------------------------------------------------
    def render(self, fn, expr, depth=5, seen=()):
        """MIR operand / rvalue text -> normalised expression tree text"""
        e = expr.strip()
        e = re.sub(r"^(copy|move) ", "", e)
        m = re.fullmatch(r"_\d+", e)
        if m:
            return self._local(fn, e, depth, seen)
        m = re.fullmatch(r"\(?(_\d+)\.(\d+): [^()]*\)?", e)
        if m:                                                     # field of a tuple temp: (_6.0: u32)
            inner = self._local(fn, m.group(1), depth, seen)
            if inner.startswith("(") and inner.endswith(")"):
                parts = _split_args(inner[1:-1])
                k = int(m.group(2))
                if len(parts) > 1 and k < len(parts):
                    return parts[k].strip()                       # projection of a rendered aggregate
            if inner.startswith("phi(") and inner.endswith(")"):
                alts = []
                for a in inner[4:-1].split(" | "):
                    a = a.strip()
                    ps = _split_args(a[1:-1]) if a.startswith("(") and a.endswith(")") else []
                    k = int(m.group(2))
                    alts.append(ps[k].strip() if len(ps) > 1 and k < len(ps) else a + "." + m.group(2))
                return "phi(%s)" % " | ".join(sorted(set(alts)))
            return inner if m.group(2) == "0" else inner + "." + m.group(2)
        m = re.fullmatch(r"const (.*)", e)
        if m:
            c = m.group(1)
            c = re.sub(r"_(?:[iu](?:8|16|32|64|128|size)|f32|f64)\b", "", c)
            c = re.sub(r"<[^<>]*>", "", c)
            return c.split("::")[-1] if "::" in c and not c.startswith('"') else c
        m = re.fullmatch(r"(\w+)\((.*)\)", e)
        if m and m.group(1)[0].isupper():                         # Rvalue: Add(a, b), Lt(..), Len(..)
            args = [self.render(fn, a, depth - 1, seen) for a in _split_args(m.group(2))]
            op = m.group(1)
            if op in COMMUTATIVE:
                args.sort(key=lambda a: (re.sub(r"\{\w+\}", "{}", a), a))
            return "%s(%s)" % (op, ", ".join(args))
        m = re.fullmatch(r"(.*?)\((.*)\)", e)
        if m and ("::" in m.group(1) or m.group(1)[0:1].islower()):   # call
            callee = _norm_callee(m.group(1))
            if not self.rich and (callee in ("Option", "Result") or callee.startswith(("Option::", "Result::"))):
                # combinator chains on Option / Result (map, map_or, unwrap_or, ...) are a leaf in construct
                # fingerprints: `x.map(f).unwrap_or(d)` and `x.map_or(d, f)` must not differ (neutral patch N2);
                # caller and supplier renderings keep them
                return "{t}"
            args = [self.render(fn, a, depth - 1, seen) for a in _split_args(m.group(2))]
            if callee in COMMUTATIVE:
                args.sort(key=lambda a: (re.sub(r"\{\w+\}", "{}", a), a))
            return "%s(%s)" % (callee, ", ".join(args))
        m = re.fullmatch(r"(.*) as (\S+) \((\w+)\)", e)
        if m:
            return self.render(fn, m.group(1), depth, seen)         # casts are transparent
        m = re.fullmatch(r"&(mut )?(.*)", e)
        if m:
            return self.render(fn, m.group(2), depth, seen)
        m = re.fullmatch(r"\(\*(_\d+)\)", e)
        if m:
            return self._local(fn, m.group(1), depth, seen)
        if self.rich and e.startswith("(") and e.endswith(")") and ": " not in e:
            parts = _split_args(e[1:-1])
            if len(parts) > 1:                                      # tuple aggregate
                return "(%s)" % ", ".join(self.render(fn, a, depth - 1, seen) for a in parts)
        e = re.sub(r"\{closure@[^}]*\}", "{closure}", e)                # no source positions in renderings
        # places with projections: ((*_1).0: usize), (*_5)[_8] ...
        locs = RE_LOCAL.findall(e)
        e2 = e
        for l in sorted(set(locs), key=len, reverse=True):
            e2 = re.sub(r"\b%s\b" % l, self._name(fn, l), e2)
        e2 = re.sub(r": [^()\[\]]+\)", ")", e2)
        return re.sub(r"\s+", " ", e2)[:80]

    def _name(self, fn, loc):
        if loc in fn.debug:
            return "{%s}" % fn.debug[loc]
        n = int(loc[1:])
        if 1 <= n <= fn.nargs:
            return "{arg%d}" % n
        return "{t}"

    def _local(self, fn, loc, depth, seen):
        n = int(loc[1:])
        if 1 <= n <= fn.nargs:
            return "{%s}" % fn.debug.get(loc, "arg%d" % n)
        ds = fn.defs.get(loc, [])
        if len(ds) == 1 and depth > 0 and loc not in seen:
            # temporaries and immutable `let` bindings are replaced by their definition
            return self.render(fn, ds[0], depth - 1, seen + (loc,))
        if self.rich and 1 < len(ds) <= 3 and depth > 1 and loc not in seen:
            # a variable assigned on several paths: the (sorted) alternatives, so that an edit of one of them is seen
            alts = sorted({self.render(fn, d, depth - 2, seen + (loc,)) for d in ds})
            return "phi(%s)" % " | ".join(alts)
        if loc in fn.debug:
            return "{%s}" % fn.debug[loc]          # a variable assigned more than once: a leaf
        return "{t}" if len(ds) <= 1 else "{phi}"

    @staticmethod
    def canonical(expr):
        """alpha-rename variable leaves in order of first appearance"""
        names = {}

        def sub(m):
            k = m.group(1)
            if k not in names:
                names[k] = "v%d" % (len(names) + 1)
            return names[k]
        return re.sub(r"\{(\w+)\}", sub, expr)

    # -- locating a site -----------------------------------------------------------
    def fingerprints(self, pos, kind, msg, via):
        """pos 'src/x.rs:LINE:COL' -> sorted list of fingerprints (may be empty: not located)"""
        return sorted({self.canonical(f) for f in self._fingerprints(pos, kind, msg, via)})

    def _fingerprints(self, pos, kind, msg, via):
        m = re.match(r"^(src/[^:]+):(\d+):(\d+)$", pos or "")
        if not m:
            return []
        f, line, col = m.group(1), int(m.group(2)), int(m.group(3))
        cands = self.by_line.get((f, line), [])
        out = set()
        want_call = via[-1] if via else None
        if want_call:
            hits = [(fn, st) for (fn, st) in cands if st.is_term and re.search(r"[>:]%s(::<[^(]*>)?\(" % re.escape(want_call), st.text)]
            hits = _closest(hits, col)
            for fn, st in hits:
                rhs = RE_ASSIGN.match(st.text)
                out.add(self.render(fn, re.sub(r"\s*->\s*.*$", "", rhs.group(2) if rhs else st.text)))
            return sorted(out)
        if kind in OVERFLOW_MSG:
            hits = [(fn, st) for (fn, st) in cands if st.text.startswith("assert(") and OVERFLOW_MSG[kind] in st.text]
            hits = _closest(hits, col)
            for fn, st in hits:
                # the checked operation is the OpWithOverflow / comparison that defines the asserted flag
                am = re.match(r'^assert\(!?(?:move |copy )?\(?(_\d+)', st.text)
                if am and fn.defs.get(am.group(1)):
                    out.add(self.render(fn, fn.defs[am.group(1)][0]))
                else:
                    out.add(self.render(fn, st.text[len("assert("):].split(', "')[0].lstrip("!")))
            if out:
                return sorted(out)
            # generic integer code: the operation is a trait call (`<I as Add>::add`) whose check lives in core
            meth = {"overflow:add": "add", "overflow:sub": "sub", "overflow:mul": "mul", "overflow:neg": "neg",
                    "overflow:shl": "shl", "overflow:shr": "shr", "div0": "div", "rem0": "rem",
                    "div_overflow": "div"}.get(kind)
            if meth:
                hits = [(fn, st) for (fn, st) in cands if st.is_term and
                        re.search(r"[>:](%s|%s_assign|wrapping_%s|pow|abs|next_power_of_two)(::<[^(]*>)?\(" % (meth, meth, meth), st.text)]
                for fn, st in _closest(hits, col, tol=2):
                    rhs = RE_ASSIGN.match(st.text)
                    out.add(self.render(fn, re.sub(r"\s*->\s*.*$", "", rhs.group(2) if rhs else st.text)))
            return sorted(out)
        if kind == "slice":
            hits = [(fn, st) for (fn, st) in cands if st.is_term and re.search(r"::index(_mut)?(::<[^(]*>)?\(|copy_from_slice|split_at|::get", st.text)]
            for fn, st in _closest(hits, col, tol=3):
                rhs = RE_ASSIGN.match(st.text)
                out.add(self.render(fn, re.sub(r"\s*->\s*.*$", "", rhs.group(2) if rhs else st.text)))
            return sorted(out)
        if kind in ("unwrap", "expect", "unwrap_result"):
            hits = [(fn, st) for (fn, st) in cands if st.is_term and re.search(r"::(unwrap|expect)(::<[^(]*>)?\(", st.text)]
            for fn, st in _closest(hits, col, tol=200):
                rhs = RE_ASSIGN.match(st.text)
                out.add(self.render(fn, re.sub(r"\s*->\s*.*$", "", rhs.group(2) if rhs else st.text)))
            return sorted(out)
        if kind in ("assert", "assert_fmt", "assert_eq"):
            # macro-expanded panic: its MIR span is inside core; use the guard (switchInt) on the same line
            hits = [(fn, st) for (fn, st) in cands if st.text.startswith("switchInt(")]
            for fn, st in hits:
                cm = re.match(r"^switchInt\((.*?)\) ->", st.text)
                if not cm:
                    continue
                # only guards one of whose targets panics
                tgts = re.findall(r"\bbb\d+\b", st.text.split("->", 1)[1])
                if not any(self._block_panics(fn, t) for t in tgts):
                    continue
                out.add(self.render(fn, cm.group(1)))
            return sorted(out)
        return []

    # -- the other end of an argument: what callers pass ---------------------------------
    def caller_fingerprints(self, keyfn):
        """keyfn: the function part of an Engine-A key.  -> sorted renderings of every call to that function in the
        crate (callee and the expression trees of its arguments).  Many table entries rest on what callers pass
        (digit counts, slices that hold only digits, shift distances); the construct fingerprint cannot see an edit
        there."""
        qm = _key_callee(keyfn)
        if qm is None:
            return []
        qual, meth = qm
        idx = self._call_index()
        out = set()
        for (fn, rhs, callee) in idx.get(meth, []):
            nc = _norm_callee(callee)
            nc = re.sub(r"\bFixedI\d+\b", "FixedS", re.sub(r"\bFixedU\d+\b", "FixedU", nc))
            parts = nc.split("::")
            if len(parts) >= 2 and qual is not None and parts[-2] != qual and parts[-2] not in ("Self",):
                continue
            self.rich = True
            try:
                r = self.canonical(self.render(fn, rhs, depth=9))
            finally:
                self.rich = False
            out.add(re.sub(r"\bFixedI\d+\b", "FixedS", re.sub(r"\bFixedU\d+\b", "FixedU", r)))
        return sorted(out)

    def body_fingerprint(self, name_rx):
        """decision structure of the functions whose MIR name matches: every `switchInt` with its rendered scrutinee
        and case values, and every value stored into the return place.  Used for *suppliers*: functions whose result
        establishes the invariant a table entry rests on (parse_bounds for the digit bytes of the parser).  Renames,
        comments, `let` extraction and operand order of commutative operations do not change it."""
        import collections
        out = collections.Counter()
        self.rich = True
        try:
            return self._body_fingerprint(name_rx, out)
        finally:
            self.rich = False

    def _body_fingerprint(self, name_rx, out):
        rx = re.compile(name_rx)
        n = 0
        for fn in self.fns:
            if not rx.search(fn.name):
                continue
            n += 1
            for bb, sts in fn.blocks.items():
                for st in sts:
                    t = st.text
                    m = re.match(r"^switchInt\((.*)\) -> \[(.*)\]$", t)
                    if m:
                        vals = [v.split(":")[0].strip() for v in m.group(2).split(",")]
                        vals = sorted(v for v in vals if v != "otherwise")
                        out[self.canonical("switch %s [%s]" % (self.render(fn, m.group(1), depth=6), " ".join(vals)))] += 1
                        continue
                    m = RE_ASSIGN.match(t)
                    if m and (m.group(1) == "_0" or m.group(1).startswith("(_0.") or m.group(1).startswith("((_0")):
                        rhs = re.sub(r"\s*->\s*(\[.*\]|unwind \w+|bb\d+).*$", "", m.group(2))
                        out[self.canonical("ret %s" % self.render(fn, rhs, depth=6))] += 1
        return n, sorted("%dx %s" % (c, r) for r, c in out.items())

    def _call_index(self):
        idx = getattr(self, "_calls", None)
        if idx is not None:
            return idx
        idx = self._calls = {}
        for fn in self.fns:
            for sts in fn.blocks.values():
                for st in sts:
                    if not st.is_term or "(" not in st.text:
                        continue
                    m = RE_ASSIGN.match(st.text)
                    rhs = m.group(2) if m else st.text
                    rhs = re.sub(r"\s*->\s*(\[.*\]|unwind \w+|bb\d+).*$", "", rhs)
                    cm = re.fullmatch(r"(.*?)\((.*)\)", rhs)
                    if not cm or not ("::" in cm.group(1) or cm.group(1)[0:1].islower() or cm.group(1)[0:1] == "<"):
                        continue
                    callee = cm.group(1)
                    name = re.sub(r"::<[^()]*>$", "", callee).split("::")[-1]
                    idx.setdefault(name, []).append((fn, rhs, callee))
        return idx

    @staticmethod
    def _block_panics(fn, bb):
        sts = fn.blocks.get(bb, [])
        return any(re.search(r"\bpanic\w*\(|assert_failed|unreachable_display|begin_panic", st.text) for st in sts[-2:])


def _closest(hits, col, tol=0):
    if not hits:
        return []
    exact = [(fn, st) for (fn, st) in hits if abs(st.col - col) <= tol]
    if exact:
        return exact
    d = min(abs(st.col - col) for (_fn, st) in hits)
    return [(fn, st) for (fn, st) in hits if abs(st.col - col) == d] if d <= 40 else []


def _split_args(s):
    out, cur, depth, inq = [], "", 0, False
    for ch in s:
        if inq:
            cur += ch
            if ch == '"':
                inq = False
        elif ch == '"':
            inq = True
            cur += ch
        elif ch in "([{<":
            depth += 1
            cur += ch
        elif ch in ")]}>":
            depth -= 1
            cur += ch
        elif ch == "," and depth <= 0:
            out.append(cur)
            cur = ""
        else:
            cur += ch
    if cur.strip():
        out.append(cur)
    return out


def _norm_callee(c):
    c = c.strip()
    c = re.sub(r"::<[^()]*>$", "", c)                # turbofish
    m = re.match(r"^<.* as ([\w:]+?)(?:<.*>)?>::(\w+)$", c)
    if m:
        return m.group(1).split("::")[-1] + "::" + m.group(2)
    parts = [p for p in re.split(r"::", re.sub(r"<[^<>]*>", "", re.sub(r"<[^<>]*>", "", c))) if p and not p.startswith("<")]
    return "::".join(parts[-2:]) if len(parts) >= 2 and parts[-2][0:1].isupper() else (parts[-1] if parts else c)


def _key_callee(keyfn):
    """function part of an Engine-A key -> (qualifier or None, method); None for closures"""
    k = keyfn.strip()
    if "{closure" in k or "{{closure" in k:
        return None
    m = re.match(r"^<.* as ([\w:]+?)(?:<.*>)?>::(\w+)$", k)
    if m:
        return m.group(1).split("::")[-1], m.group(2)
    k2 = k
    for _ in range(4):
        k2 = re.sub(r"<[^<>]*>", "", k2)
    parts = [x for x in k2.split("::") if x]
    if not parts:
        return None
    meth = parts[-1]
    qual = parts[-2] if len(parts) >= 2 and parts[-2][0:1].isupper() else None
    return qual, meth


RE_ASSIGN_OP = re.compile(r"^(Add|Sub|Mul|Div|Rem|Shl|Shr|BitAnd|BitOr|BitXor)Assign::(add|sub|mul|div|rem|shl|shr|bitand|bitor|bitxor)_assign$")


def norm_fp(fp):
    """`a op= b` and `a = a op b` are one operation (every OpAssign impl of the crate forwards to Op): the
    assigning callee is renamed to the plain one, commutative arguments are sorted again and variables renumbered.
    Applied to recorded and current fingerprints alike."""
    def norm(x):
        x = x.strip()
        m = re.match(r"^([A-Za-z_][\w:]*)\(", x)
        if m and x.endswith(")"):
            depth = 0
            end = None
            for i in range(m.end() - 1, len(x)):
                if x[i] == "(":
                    depth += 1
                elif x[i] == ")":
                    depth -= 1
                    if depth == 0:
                        end = i
                        break
            if end == len(x) - 1:
                name = m.group(1)
                am = RE_ASSIGN_OP.match(name)
                if am:
                    name = "%s::%s" % (am.group(1), am.group(2))
                args = [norm(a) for a in _split_args(x[m.end():-1])]
                if name in COMMUTATIVE:
                    args.sort(key=lambda a: (re.sub(r"\bv\d+\b", "v", a), a))
                return "%s(%s)" % (name, ", ".join(args))
        return x
    out = norm(re.sub(r"\b(copy|move) ", "", fp))
    names = {}

    def sub(m):
        k = m.group(0)
        if k not in names:
            names[k] = "\0v%d" % (len(names) + 1)
        return names[k]
    return re.sub(r"\bv\d+\b", sub, out).replace("\0", "")
