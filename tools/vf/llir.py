"""Minimal reader for textual LLVM IR as emitted by rustc (`--emit=llvm-ir`).

It extracts exactly what the engines need: functions with their call sites,
attribute groups, aliases, string constants, and the debug-location metadata
(`!DILocation` / `!DISubprogram` / `!DIFile`) that ties an instruction to a
chain of inlined source frames."""
import re

RE_DEFINE = re.compile(r'^define\s.*?@("[^"]+"|[\w.$-]+)\(')
RE_DECLARE = re.compile(r'^declare\s.*?@("[^"]+"|[\w.$-]+)\(')
RE_CALLEE = re.compile(r'(?:@("[^"]+"|[\w.$-]+)|(%[\w.$-]+|%"[^"]+"))\(')
RE_DBG = re.compile(r'!dbg !(\d+)')
RE_ATTRREF = re.compile(r'#(\d+)')
RE_ALIAS = re.compile(r'^@("[^"]+"|[\w.$-]+) = .*?\balias\b.*?, ptr @("[^"]+"|[\w.$-]+)')
RE_GLOBAL = re.compile(r'^@("[^"]+"|[\w.$-]+) = ')
RE_META = re.compile(r'^!(\d+) = ')
RE_ATTRS = re.compile(r'^attributes #(\d+) = \{(.*)\}')
RE_CSTR = re.compile(r'constant (?:<\{ )?\[\d+ x i8\] c"((?:[^"\\]|\\[0-9A-Fa-f]{2}|\\\\)*)"')
RE_FIELD = {}


def _field(name):
    r = RE_FIELD.get(name)
    if r is None:
        r = RE_FIELD[name] = re.compile(r'\b' + name + r': (!\d+|"(?:[^"\\]|\\.)*"|[^,)]+)')
    return r


def unq(s):
    return s[1:-1] if s.startswith('"') else s


class Call:
    __slots__ = ("callee", "indirect", "dbg", "line", "noreturn_site")

    def __init__(self, callee, indirect, dbg, line):
        self.callee = callee
        self.indirect = indirect
        self.dbg = dbg
        self.line = line


class Func:
    __slots__ = ("name", "demangled", "start", "end", "attr_ids", "dbg", "calls",
                 "is_decl", "inline_attrs")

    def __init__(self, name):
        self.name = name
        self.demangled = None
        self.start = self.end = None
        self.attr_ids = ()
        self.dbg = None
        self.calls = []
        self.is_decl = False
        self.inline_attrs = ""


class Module:
    def __init__(self, path, want_calls=True):
        with open(path, "r", errors="replace") as fh:
            self.lines = fh.read().split("\n")
        self.funcs = {}
        self.aliases = {}
        self.globals = {}     # name -> line index
        self.meta = {}        # id -> line index
        self.attrs = {}       # group id -> text
        self._meta_cache = {}
        self._parse(want_calls)

    def _parse(self, want_calls):
        lines = self.lines
        cur = None
        last_comment = None
        for i, ln in enumerate(lines):
            if cur is not None:
                if ln == "}":
                    cur.end = i
                    cur = None
                    continue
                if want_calls and ("call " in ln or "invoke " in ln):
                    k = ln.find("call ")
                    if k < 0 or (k > 0 and ln[k - 1] not in " \t"):
                        k2 = ln.find("invoke ")
                        if k2 >= 0:
                            k = k2
                    if k < 0:
                        continue
                    # skip comment lines such as "; call core::..."
                    if ln.lstrip().startswith(";"):
                        continue
                    m = RE_CALLEE.search(ln, k)
                    if not m:
                        continue
                    d = RE_DBG.search(ln, m.end())
                    dbg = int(d.group(1)) if d else None
                    if m.group(1) is not None:
                        name = unq(m.group(1))
                        if name.startswith("llvm.") and not name.startswith("llvm.trap") \
                                and not name.startswith("llvm.ubsantrap"):
                            continue
                        cur.calls.append(Call(name, False, dbg, i))
                    else:
                        if "asm " in ln[k:m.start()]:
                            continue
                        cur.calls.append(Call(None, True, dbg, i))
                continue
            if not ln:
                continue
            c0 = ln[0]
            if c0 == ";":
                if not ln.startswith("; Function Attrs") and not ln.startswith("; ModuleID"):
                    last_comment = ln[2:]
                continue
            if c0 == "d":
                m = RE_DEFINE.match(ln)
                if m:
                    f = Func(unq(m.group(1)))
                    f.demangled = last_comment
                    last_comment = None
                    f.start = i
                    tail = ln[self._sig_end(ln, m.end() - 1):]
                    f.attr_ids = tuple(int(x) for x in RE_ATTRREF.findall(tail))
                    f.inline_attrs = tail
                    d = RE_DBG.search(tail)
                    f.dbg = int(d.group(1)) if d else None
                    self.funcs[f.name] = f
                    cur = f
                    continue
                m = RE_DECLARE.match(ln)
                if m:
                    f = Func(unq(m.group(1)))
                    f.demangled = last_comment
                    last_comment = None
                    f.is_decl = True
                    f.start = f.end = i
                    tail = ln[self._sig_end(ln, m.end() - 1):]
                    f.attr_ids = tuple(int(x) for x in RE_ATTRREF.findall(tail))
                    f.inline_attrs = tail
                    self.funcs[f.name] = f
                    continue
            elif c0 == "@":
                m = RE_ALIAS.match(ln)
                if m:
                    self.aliases[unq(m.group(1))] = unq(m.group(2))
                else:
                    m = RE_GLOBAL.match(ln)
                    if m:
                        self.globals[unq(m.group(1))] = i
            elif c0 == "!":
                m = RE_META.match(ln)
                if m:
                    self.meta[int(m.group(1))] = i
            elif c0 == "a":
                m = RE_ATTRS.match(ln)
                if m:
                    self.attrs[int(m.group(1))] = m.group(2)

    @staticmethod
    def _sig_end(ln, open_idx):
        """index just after the parenthesis matching ln[open_idx] == '('"""
        depth = 0
        i = open_idx
        n = len(ln)
        inq = False
        while i < n:
            ch = ln[i]
            if inq:
                if ch == '"':
                    inq = False
            elif ch == '"':
                inq = True
            elif ch == "(":
                depth += 1
            elif ch == ")":
                depth -= 1
                if depth == 0:
                    return i + 1
            i += 1
        return n

    # ------------------------------------------------------------------
    def resolve(self, name):
        seen = 0
        while name in self.aliases and seen < 8:
            name = self.aliases[name]
            seen += 1
        return name

    def func_has_attr(self, f, attr):
        if re.search(r'\b' + attr + r'\b', f.inline_attrs.split("!dbg")[0].split("{")[0]):
            # attribute may be written inline or appear through a group id
            toks = f.inline_attrs.split()
            if attr in toks:
                return True
        for a in f.attr_ids:
            if re.search(r'(?<![\w-])' + attr + r'(?![\w-])', self.attrs.get(a, "")):
                return True
        return False

    def call_site_has_attr(self, call, attr):
        ln = self.lines[call.line]
        k = ln.rfind(")")
        tail = ln[k:] if k >= 0 else ln
        tail = tail.split("!dbg")[0]
        if attr in tail.split():
            return True
        for a in RE_ATTRREF.findall(tail):
            if re.search(r'(?<![\w-])' + attr + r'(?![\w-])', self.attrs.get(int(a), "")):
                return True
        return False

    def body(self, f):
        return self.lines[f.start:f.end + 1]

    # -- metadata ----------------------------------------------------------
    def md(self, mid):
        """-> dict(kind=..., fields...) parsed lazily"""
        r = self._meta_cache.get(mid)
        if r is not None:
            return r
        li = self.meta.get(mid)
        if li is None:
            r = {"kind": None}
            self._meta_cache[mid] = r
            return r
        ln = self.lines[li]
        m = re.match(r'^!\d+ = (?:distinct )?!(\w+)\((.*)\)\s*$', ln)
        if not m:
            r = {"kind": "other", "raw": ln}
            self._meta_cache[mid] = r
            return r
        kind, rest = m.group(1), m.group(2)
        r = {"kind": kind}
        if kind == "DILocation":
            for k in ("line", "column", "scope", "inlinedAt"):
                mm = _field(k).search(rest)
                if mm:
                    v = mm.group(1)
                    r[k] = int(v[1:]) if v.startswith("!") else int(v)
        elif kind == "DISubprogram":
            for k in ("name", "linkageName", "scope", "file", "line", "unit"):
                mm = _field(k).search(rest)
                if mm:
                    v = mm.group(1)
                    if v.startswith("!"):
                        r[k] = int(v[1:])
                    elif v.startswith('"'):
                        r[k] = v[1:-1]
                    else:
                        r[k] = v
        elif kind in ("DILexicalBlock", "DILexicalBlockFile"):
            for k in ("scope", "file", "line"):
                mm = _field(k).search(rest)
                if mm:
                    v = mm.group(1)
                    r[k] = int(v[1:]) if v.startswith("!") else v
        elif kind == "DIFile":
            for k in ("filename", "directory"):
                mm = _field(k).search(rest)
                if mm:
                    r[k] = mm.group(1)[1:-1]
        elif kind == "DICompileUnit":
            mm = _field("file").search(rest)
            if mm:
                r["file"] = int(mm.group(1)[1:])
        elif kind == "DINamespace":
            for k in ("name", "scope"):
                mm = _field(k).search(rest)
                if mm:
                    v = mm.group(1)
                    r[k] = int(v[1:]) if v.startswith("!") else v.strip('"')
        self._meta_cache[mid] = r
        return r

    def subprogram_of_scope(self, sid):
        n = 0
        while sid is not None and n < 64:
            d = self.md(sid)
            if d["kind"] == "DISubprogram":
                return sid, d
            sid = d.get("scope")
            n += 1
        return None, None

    def frames(self, dbg):
        """Inlined-frame chain of a debug location, innermost first:
        [(subprogram id, line)]"""
        out = []
        n = 0
        while dbg is not None and n < 256:
            d = self.md(dbg)
            if d["kind"] != "DILocation":
                break
            sid, sp = self.subprogram_of_scope(d.get("scope"))
            out.append((sid, d.get("line", 0), d.get("column", 0)))
            dbg = d.get("inlinedAt")
            n += 1
        return out

    def file_of(self, sp):
        f = sp.get("file")
        if f is None:
            return ("", "")
        d = self.md(f)
        return (d.get("filename", ""), d.get("directory", ""))

    def unit_dir(self, sp):
        u = sp.get("unit")
        if u is None:
            return None
        cu = self.md(u)
        f = cu.get("file")
        if f is None:
            return None
        d = self.md(f)
        return (d.get("filename", ""), d.get("directory", ""))

    # -- constants ------------------------------------------------------------
    def cstring(self, gname):
        li = self.globals.get(gname)
        if li is None:
            return None
        m = RE_CSTR.search(self.lines[li])
        if not m:
            return None
        s = m.group(1)
        return re.sub(r'\\([0-9A-Fa-f]{2})', lambda mm: chr(int(mm.group(1), 16)), s).replace("\\\\", "\\")

    def body_strings(self, f):
        """string constants referenced anywhere in a function body (used when
        LLVM has specialised a panic helper on its constant message)"""
        out = []
        if f is None or f.is_decl:
            return out
        for ln in self.lines[f.start:f.end + 1]:
            if "@alloc_" in ln or "@anon." in ln:
                for g in re.findall(r'@(alloc_[0-9a-f]+|anon\.[\w.]+)', ln):
                    s = self.cstring(g)
                    if s is not None and s not in out:
                        out.append(s)
        return out

    def call_string_args(self, call):
        """string constants referenced as direct arguments of a call"""
        ln = self.lines[call.line]
        out = []
        for g in re.findall(r'@(alloc_[0-9a-f]+|anon\.[\w.]+)', ln):
            s = self.cstring(g)
            if s is not None:
                out.append(s)
        return out


    # -- slicing ---------------------------------------------------------------
    _STRIP_WORDS = {"internal", "private", "hidden", "protected", "dso_local", "linkonce_odr",
                    "weak_odr", "weak", "linkonce", "available_externally", "dso_preemptable",
                    "common", "appending"}

    def slice_text(self, keep):
        """Module text in which every function outside `keep` (a set of
        symbol names) is reduced to a declaration.  Used to run LLVM analysis
        printers only on the functions of interest."""
        out = []
        lines = self.lines
        i = 0
        n = len(lines)
        starts = {f.start: f for f in self.funcs.values() if not f.is_decl}
        while i < n:
            f = starts.get(i)
            if f is None:
                ln = lines[i]
                if ln.startswith("@"):
                    m = RE_ALIAS.match(ln)
                    if m and unq(m.group(2)) not in keep:
                        # alias of a removed definition -> declaration of the same type
                        mm = re.search(r'\balias\s+(.*?)\s*\((.*)\),\s*ptr\s+@', ln)
                        if mm:
                            out.append("declare %s @%s(%s)" % (mm.group(1), m.group(1), mm.group(2)))
                        i += 1
                        continue
                out.append(ln)
                i += 1
                continue
            if f.name in keep:
                out.extend(lines[f.start:f.end + 1])
            else:
                ln = lines[f.start]
                m = RE_DEFINE.match(ln)
                end = self._sig_end(ln, m.end() - 1)
                head = ln[:end]
                tail = ln[end:]
                words = head[len("define"):].split(" ")
                words = [w for w in words if w not in self._STRIP_WORDS]
                groups = " ".join("#" + g for g in RE_ATTRREF.findall(tail.split("!dbg")[0].split(" personality ")[0]))
                out.append("declare" + " ".join(words) + " " + groups)
            i = f.end + 1
        return "\n".join(out)


# ---------------------------------------------------------------------------

_DEM_ESC = {"LT": "<", "GT": ">", "RF": "&", "LP": "(", "RP": ")", "C": ",", "BP": "*", "SP": "@"}


def demangle_legacy(sym):
    """`_ZN..E` -> path without the trailing hash; other symbols unchanged."""
    if not sym.startswith("_ZN"):
        return sym
    s = sym[3:]
    parts = []
    i = 0
    while i < len(s) and s[i].isdigit():
        j = i
        while s[j].isdigit():
            j += 1
        n = int(s[i:j])
        parts.append(s[j:j + n])
        i = j + n
    if parts and re.match(r'^h[0-9a-f]{16}$', parts[-1]):
        parts.pop()
    out = []
    for p in parts:
        if p.startswith("_$"):
            p = p[1:]
        p = re.sub(r'\$(LT|GT|RF|LP|RP|C|BP|SP|u[0-9a-f]{1,4})\$',
                   lambda m: _DEM_ESC[m.group(1)] if m.group(1) in _DEM_ESC
                   else chr(int(m.group(1)[1:], 16)), p)
        p = p.replace("..", "::")
        out.append(p)
    return "::".join(out)
