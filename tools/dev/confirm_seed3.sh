#!/bin/bash
# usage: confirm_seed3.sh <round-id e.g. r6-C03> <a|b> [cargo-run-args]
# confirms a seeded change produced in /tmp/seed/<id>-wt with outputs in /tmp/seed/<id>-out/<x>/ (no git stash)
id=$1; x=$2; shift 2; runargs="$@"
wt=/tmp/seed/$id-wt; out=/tmp/seed/$id-out/$x
cd $wt || exit 2
git checkout -- . ; git status --porcelain | grep -v '^??' | grep -q . && { echo "worktree not clean"; exit 2; }
git apply $out/patch.diff || { echo "patch does not apply"; exit 2; }
t=$(cargo test --offline --lib 2>&1 | grep "^test result" | head -1); echo "tests with change: $t"
cd $out/demo && CARGO_TARGET_DIR=/tmp/seed/$id-out/target timeout 900 cargo run --offline $runargs >/tmp/seed/$id-$x.with.log 2>&1; w=$?; echo "demo with change: exit $w"
git -C $wt checkout -- .
cd $out/demo && CARGO_TARGET_DIR=/tmp/seed/$id-out/target timeout 900 cargo run --offline $runargs >/tmp/seed/$id-$x.without.log 2>&1; wo=$?; echo "demo without change: exit $wo"
[ "$w" != "0" ] && [ "$wo" = "0" ] && echo "$t" | grep -q "66 passed; 0 failed" && echo "CONFIRMED $id/$x" || echo "NOT CONFIRMED $id/$x"
