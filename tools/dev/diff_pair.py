"""Developer tool: show where the term normal forms of an Engine-E pair differ (result components, case guards)."""
import sys, os
sys.path.insert(0, os.path.join(os.path.dirname(os.path.abspath(__file__)), ".."))
from vf import run_e, run_a, build, llir, engine_e2 as E2
tier, fam, oid = sys.argv[1], sys.argv[2], sys.argv[3]
ctx = run_a.context(tier)
pairs = run_e.gen_pairs(ctx["api"], tier, [fam])[fam]
for cr in run_e.crates_for(fam, pairs):
    for k, p in enumerate(cr.pairs):
        if p.oid != oid:
            continue
        mod = llir.Module(build.ll_path("on", cr.name), want_calls=False)
        S = E2.Store()
        ra = E2.Term(mod, "a__%d" % k, S).run()
        rb = E2.Term(mod, "b__%d" % k, S).run()
        K = S.domain()
        fa, fb = E2.finalise(S, ra, K), E2.finalise(S, rb, K)

        def walk(x, y, path):
            if x == y:
                return
            if x[0] != y[0]:
                print(path, "KIND", x[0], y[0]); return
            if x[0] in ("t",):
                for i, (u, v) in enumerate(zip(x[1], y[1])):
                    walk(u, v, path + "/%d" % i)
            elif x[0] == "m":
                for (ku, u), (kv, v) in zip(x[1], y[1]):
                    walk(u, v, path + "/m%s" % (ku,))
            elif x[0] == "b":
                print(path, "BOOL differs")
                d1 = S.b_and(x[1], S.b_not(y[1])); d2 = S.b_and(y[1], S.b_not(x[1]))
                print("   A and not B:", E2.show_bdd(S, d1)[:1500])
                print("   B and not A:", E2.show_bdd(S, d2)[:1500])
            elif x[0] == "v":
                ta = [c if not isinstance(c, tuple) else c[0] for c in x[2]]
                tb = [c if not isinstance(c, tuple) else c[0] for c in y[2]]
                print(path, "VALUE differs: terms A", [E2.show_term(S, t) for t in ta])
                print(path, "               terms B", [E2.show_term(S, t) for t in tb])
                da = {c[0]: c[1] for c in x[2] if isinstance(c, tuple)}
                db = {c[0]: c[1] for c in y[2] if isinstance(c, tuple)}
                for t in da:
                    if t in db and da[t] != db[t] and da[t] is not None and db[t] is not None:
                        print("   guard of", E2.show_term(S, t), "differs")
                        print("     A and not B:", E2.show_bdd(S, S.b_and(da[t], S.b_not(db[t])))[:1200])
                        print("     B and not A:", E2.show_bdd(S, S.b_and(db[t], S.b_not(da[t])))[:1200])
        walk(fa, fb, "")
        print("equal" if fa == fb else "different")
        sys.exit(0)
print("not found")
