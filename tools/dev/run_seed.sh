#!/bin/bash
# usage: run_seed.sh <seed-name> <property> [tier]  -- applies the patch to /repo, runs the check, undoes the patch
name=$1; prop=$2; tier=${3:-quick}
cd /verif
git -C /repo status --porcelain | grep -q . && { echo "/repo not clean"; exit 2; }
git -C /repo apply /verif/seeded/$name/patch.diff || exit 2
VERIF_EVIDENCE_DIR=/verif/.work/evidence-seed python3 check.py $prop --tier $tier > /verif/.work/seedrun-$name-$prop-$tier.log 2>&1; rc=$?
git -C /repo checkout -- .
echo "seed=$name property=$prop tier=$tier exit=$rc"
grep "VIOLATION\|violating construct\|^OK\|ENGINE-ERROR" /verif/.work/seedrun-$name-$prop-$tier.log | cut -c1-300 | head -6
