"""Developer tool: relaxed stress policy for named obligation classes.  The default policy (sweep_e.py --stress) demotes a
layout that fails under ANY of the four perturbations (all #[inline] hints removed, all turned into #[inline(always)],
inline thresholds 60 / 1000).  For the classes given here a layout is demoted only if it fails on the pinned tree, under
one of the two threshold perturbations, or under BOTH global hint perturbations.
usage: stress_relaxed.py <fresh registry json> <fam> <class> [<class> ...]"""
import sys, os, json, subprocess, collections
sys.path.insert(0, os.path.join(os.path.dirname(os.path.abspath(__file__)), ".."))
fresh, fam, classes = sys.argv[1], sys.argv[2], sys.argv[3:]
CFG = [("noinline", {"VERIF_REPO": "/tmp/seed/noinline-wt"}), ("inlinealways", {"VERIF_REPO": "/tmp/seed/inlinealways-wt"}),
       ("thr60", {"VERIF_INLINE_THRESHOLD": "60"}), ("thr1000", {"VERIF_INLINE_THRESHOLD": "1000"})]
code = r'''
import sys, os, json
sys.path.insert(0, "/verif/tools")
from vf import run_e, run_a
out = {}
for tier in ("quick", "thorough"):
    ctx = run_a.context(tier)
    R = run_e.results(ctx["api"], tier, [sys.argv[1]])
    for oid, (p, v, how) in R.items():
        if p.cls in sys.argv[2:] and v != "equal" and v != "unanalysed":
            out.setdefault(p.cls, []).append(p.layout)
print("RESULT " + json.dumps(out))
'''
fails = {}
for name, env in CFG:
    e = dict(os.environ); e.update(env)
    r = subprocess.run([sys.executable, "-c", code, fam] + classes, capture_output=True, text=True, env=e, cwd="/verif")
    line = [l for l in r.stdout.splitlines() if l.startswith("RESULT ")]
    if not line:
        print(r.stderr[-2000:]); sys.exit("config %s failed" % name)
    fails[name] = {k: set(v) for k, v in json.loads(line[0][7:]).items()}
    print(name, {k: len(v) for k, v in fails[name].items()})
base = json.load(open(fresh))["classes"]
reg = json.load(open("/verif/tables/eq_obligations.json"))
for c in classes:
    pinned = set(base[c]["except"])
    hint_both = fails["noinline"].get(c, set()) & fails["inlinealways"].get(c, set())
    thr = fails["thr60"].get(c, set()) | fails["thr1000"].get(c, set())
    new = sorted(pinned | hint_both | thr)
    old = reg["classes"][c]["except"]
    reg["classes"][c]["except"] = new
    reg["classes"][c]["stress_policy"] = "relaxed: demoted only when failing on the pinned tree, under an inline-threshold perturbation, or under both global hint perturbations"
    print(c, "excepts", len(old), "->", len(new))
json.dump(reg, open("/verif/tables/eq_obligations.json", "w"), indent=1)
