"""Developer tool: print the two IR bodies of an Engine-E obligation."""
import sys, os, re
sys.path.insert(0, os.path.join(os.path.dirname(os.path.abspath(__file__)), ".."))
from vf import api, run_e, run_a, build, llir, engine_e, common as C
tier, fam, oid = sys.argv[1], sys.argv[2], sys.argv[3]
ctx = run_a.context(tier)
pairs = run_e.gen_pairs(ctx["api"], tier, [fam])[fam]
crates = run_e.crates_for(fam, pairs)
for cr in crates:
    for k, p in enumerate(cr.pairs):
        if p.oid == oid:
            ll = build.ll_path("on", cr.name)
            mod = llir.Module(ll, want_calls=False)
            print("A:", p.a); print("B:", p.b)
            for s in ("a__%d" % k, "b__%d" % k):
                f = mod.funcs[mod.resolve(s)]
                print("----", s, "->", f.name)
                for l in mod.body(f):
                    print(re.sub(r", !dbg !\d+", "", l))
            print(engine_e.compare(mod, "a__%d" % k, "b__%d" % k))
            from vf import engine_e2
            try:
                xa, xb = engine_e2.explain(mod, "a__%d" % k, "b__%d" % k)
                print("term form A:", xa); print("term form B:", xb)
            except Exception as e:
                print("term form:", repr(e))
            sys.exit(0)
print("not found")
