#!/bin/bash
# usage: run_all_seeds.sh [tier]  -- official protocol for every seed under /verif/seeded (git -C /repo apply; check;
# git -C /repo checkout -- .); prints one line per seed and records the outcome in the seed's meta.json (check_run)
tier=${1:-quick}
cd /verif
for d in seeded/*/; do
  name=$(basename $d)
  prop=$(python3 -c "import json;print(json.load(open('$d/meta.json'))['property'])")
  tools/dev/run_seed.sh $name $prop $tier > /verif/.work/seedrun-last.txt 2>&1
  head -1 /verif/.work/seedrun-last.txt
  python3 tools/dev/record_seed_run.py "$d/meta.json" "$name" "$prop" "$tier" /verif/.work/seedrun-last.txt
done
