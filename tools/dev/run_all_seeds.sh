#!/bin/bash
# usage: run_all_seeds.sh [tier]  -- official protocol for every seed under /verif/seeded; prints one line per seed
tier=${1:-quick}
cd /verif
for d in seeded/*/; do
  name=$(basename $d)
  prop=$(python3 -c "import json;print(json.load(open('$d/meta.json'))['property'])")
  out=$(tools/dev/run_seed.sh $name $prop $tier 2>&1 | head -1)
  echo "$out"
done
