#!/bin/bash
# usage: run_benign.sh <patch.diff> <label>  -- applies a behaviour-preserving refactor to the scratch worktree and runs
# every quick check on it (VERIF_REPO); every check must stay silent (exit 0)
patch=$1; label=$2; wt=/tmp/seed/mut-wt
cd /verif
git -C $wt checkout -- . ; git -C $wt apply $patch || { echo "benign=$label patch does not apply"; exit 2; }
res=""
for p in C01 C02 C03 C04 C06 C07 C08 C09 C10 C11 C12 C17 C18; do
  VERIF_REPO=$wt python3 check.py $p --tier quick > /verif/.work/benign-$label-$p.log 2>&1; rc=$?
  res="$res $p=$rc"
  if [ $rc != 0 ]; then grep "violating construct\|ENGINE" /verif/.work/benign-$label-$p.log | head -3 | cut -c1-260; fi
done
git -C $wt checkout -- .
echo "benign=$label$res"
