import sys, os, time, json
sys.path.insert(0, os.path.join(os.path.dirname(os.path.abspath(__file__)), ".."))
from vf import api, plan, build, engine_l, common as C
tier = sys.argv[1] if len(sys.argv) > 1 else "quick"
ap = api.Api()
pl = plan.Plan(ap, tier)
crs = pl.loop_crates()
t=time.time()
res = build.build("loops", crs)
print('build',time.time()-t)
for cr in crs:
    syms=[r.sym for r in cr.roots]+['ctl__loop_const','ctl__loop_linear','ctl__loop_halving']
    t=time.time()
    out=engine_l.analyse_crate((res[cr.name]['ll'], syms, C.WORK+'/ws/', C.hash_dir(), cr.name))
    print('analyse',time.time()-t)
    for s in syms:
        r=out[s]
        print(s, r['total'], [ (l['header'],l['bound'],l['rule'][:40]) for l in r['loops']], r['libs'])
