"""Developer tool: why stage 2 (term normal form) does not discharge the pairs stage 1 leaves different."""
import sys, os, collections
sys.path.insert(0, os.path.join(os.path.dirname(os.path.abspath(__file__)), ".."))
from vf import run_e, run_a, build, llir, engine_e, engine_e2
tier = sys.argv[1]; fams = sys.argv[2].split(",")
ctx = run_a.context(tier)
pairs = run_e.gen_pairs(ctx["api"], tier, fams)
why = collections.Counter(); ex = {}
for fam, ps in pairs.items():
    for cr in run_e.crates_for(fam, ps):
        mod = llir.Module(build.ll_path("on", cr.name), want_calls=False)
        for k, p in enumerate(cr.pairs):
            if p.expect == "different":
                continue
            a, b = "a__%d" % k, "b__%d" % k
            if mod.resolve(a) == mod.resolve(b):
                continue
            try:
                r = engine_e2.compare(mod, a, b)
                key = "equal" if r else "different"
            except engine_e2.Unsupported as e:
                key = "unsupported: " + str(e)[:50]
            except Exception as e:
                key = "error: " + repr(e)[:60]
            why[(p.family, key)] += 1
            ex.setdefault((p.family, key), p.oid)
for k, n in sorted(why.items(), key=lambda z: -z[1]):
    print(n, k, ex[k])
