"""Developer tool: soundness fuzzing of Engine E's two normal forms (no library code involved).

Random pairs of small Rust functions over two i8 arguments are generated together with their exact truth
tables (a Python evaluator of the same expression trees over all 65 536 inputs).  The pairs go through the
real harness pipeline (release profile, LTO) and engine_e.compare.  A pair whose truth tables differ but
which compares `equal` is a soundness bug of the canonicaliser; the share of truly equal pairs that is
recognised measures completeness.  usage: fuzz_e.py [npairs] [seed]"""
import sys, os, random, collections
sys.path.insert(0, os.path.join(os.path.dirname(os.path.abspath(__file__)), ".."))
from vf import build as B, gen as G, llir, engine_e

MUL = "--mul" in sys.argv
if MUL:
    sys.argv.remove("--mul")
N = int(sys.argv[1]) if len(sys.argv) > 1 else 400
rnd = random.Random(int(sys.argv[2]) if len(sys.argv) > 2 else 1)

# ---- expression trees --------------------------------------------------------------------------------
# integer expressions are i32-valued (built from i8 arguments, so nothing overflows); ("k", c) constant
INT_LEAVES = [("a",), ("b",), ("au",), ("bu",)]          # a as i32, b as i32, a as u8 as i32, b as u8 as i32


def rint(d):
    if d <= 0 or rnd.random() < 0.3:
        return rnd.choice(INT_LEAVES) if rnd.random() < 0.75 else ("k", rnd.randint(-130, 130))
    t = rnd.random()
    if MUL and t < 0.12:
        return ("wmul", rint(d - 1), rint(d - 1))
    if MUL and t < 0.2:
        return (rnd.choice(["tr8", "tr16", "tru8", "tru16"]), rint(d - 1))
    if MUL and t < 0.25:
        return ("lshr", rint(d - 1), rnd.randint(1, 17))
    if t < 0.2:
        return ("add", rint(d - 1), ("k", rnd.randint(-40, 40)))
    if t < 0.3:
        return ("sub", rint(d - 1), rint(d - 1))
    if t < 0.45:
        return ("shl", rint(d - 1), rnd.randint(1, 4))
    if t < 0.6:
        return ("shr", rint(d - 1), rnd.randint(1, 7))
    if t < 0.7:
        return ("and", rint(d - 1), rnd.choice([1, 3, 15, 127, 128, 240, 255, -2, -16]))
    if t < 0.8:
        return ("wadd8", rnd.choice([("a",), ("b",)]), rnd.randint(-128, 127))     # (x.wrapping_add(c)) as i32
    if t < 0.86:
        return ("ite", rbool(d - 1), rint(d - 1), rint(d - 1))
    if t < 0.89:
        return ("not", rint(d - 1))
    if t < 0.92:
        return ("oadd", rnd.choice([("a",), ("b",)]), rnd.randint(-128, 127))       # x.overflowing_add(c).0 as i32
    if t < 0.95:
        return (rnd.choice(["min", "max"]), rint(d - 1), rint(d - 1))
    if t < 0.975:
        return ("absw", rnd.choice([("a",), ("b",)]))
    return ("clz", rnd.choice([("a",), ("b",)]))


def rbool(d):
    t = rnd.random()
    if d <= 0 or t < 0.55:
        return (rnd.choice(["lt", "le", "gt", "ge", "eq", "ne"]), rint(d - 1), rint(d - 1) if rnd.random() < 0.4 else ("k", rnd.randint(-130, 130)))
    if MUL and t < 0.62:
        return (rnd.choice(["omul16f", "omulu16f", "omul32f"]), rint(d - 1), rint(d - 1))
    if t < 0.7:
        return ("andb", rbool(d - 1), rbool(d - 1))
    if t < 0.85:
        return ("orb", rbool(d - 1), rbool(d - 1))
    if t < 0.91:
        return ("notb", rbool(d - 1))
    if t < 0.95:
        return ("oaddf", rnd.choice([("a",), ("b",)]), rnd.randint(-128, 127))     # x.overflowing_add(c).1
    return ("ult", rint(d - 1), ("k", rnd.randint(0, 300)))          # compared as u32


def rust(e):
    k = e[0]
    if k == "a":
        return "(a0 as i32)"
    if k == "b":
        return "(a1 as i32)"
    if k == "au":
        return "(a0 as u8 as i32)"
    if k == "bu":
        return "(a1 as u8 as i32)"
    if k == "k":
        return "(%di32)" % e[1]
    if k == "add":
        return "(%s + %s)" % (rust(e[1]), rust(e[2]))
    if k == "sub":
        return "(%s - %s)" % (rust(e[1]), rust(e[2]))
    if k == "wmul":
        return "(%s.wrapping_mul(%s))" % (rust(e[1]), rust(e[2]))
    if k in ("tr8", "tr16", "tru8", "tru16"):
        return "(%s as %s as i32)" % (rust(e[1]), {"tr8": "i8", "tr16": "i16", "tru8": "u8", "tru16": "u16"}[k])
    if k == "lshr":
        return "(((%s as u32) >> %d) as i32)" % (rust(e[1]), e[2])
    if k == "omul16f":
        return "((%s as i16).overflowing_mul(%s as i16).1)" % (rust(e[1]), rust(e[2]))
    if k == "omulu16f":
        return "((%s as u16).overflowing_mul(%s as u16).1)" % (rust(e[1]), rust(e[2]))
    if k == "omul32f":
        return "(%s.overflowing_mul(%s).1)" % (rust(e[1]), rust(e[2]))
    if k == "shl":
        return "(%s.wrapping_shl(%d))" % (rust(e[1]), e[2])
    if k == "shr":
        return "(%s >> %d)" % (rust(e[1]), e[2])
    if k == "and":
        return "(%s & (%di32))" % (rust(e[1]), e[2])
    if k == "wadd8":
        return "(%s.wrapping_add(%di8) as i32)" % ("a0" if e[1][0] == "a" else "a1", e[2])
    if k == "ite":
        return "(if %s { %s } else { %s })" % (rust(e[1]), rust(e[2]), rust(e[3]))
    if k == "not":
        return "(!%s)" % rust(e[1])
    if k == "oadd":
        return "(%s.overflowing_add(%di8).0 as i32)" % ("a0" if e[1][0] == "a" else "a1", e[2])
    if k == "oaddf":
        return "(%s.overflowing_add(%di8).1)" % ("a0" if e[1][0] == "a" else "a1", e[2])
    if k in ("min", "max"):
        return "(core::cmp::%s(%s, %s))" % (k, rust(e[1]), rust(e[2]))
    if k == "absw":
        return "(%s.wrapping_abs() as i32)" % ("a0" if e[1][0] == "a" else "a1")
    if k == "clz":
        return "(%s.leading_zeros() as i32)" % ("a0" if e[1][0] == "a" else "a1")
    ops = {"lt": "<", "le": "<=", "gt": ">", "ge": ">=", "eq": "==", "ne": "!="}
    if k in ops:
        return "(%s %s %s)" % (rust(e[1]), ops[k], rust(e[2]))
    if k == "andb":
        return "(%s && %s)" % (rust(e[1]), rust(e[2]))
    if k == "orb":
        return "(%s || %s)" % (rust(e[1]), rust(e[2]))
    if k == "notb":
        return "(!%s)" % rust(e[1])
    if k == "ult":
        return "((%s as u32) < (%s as u32))" % (rust(e[1]), rust(e[2]))
    raise ValueError(k)


def w32(x):
    x &= 0xFFFFFFFF
    return x - (1 << 32) if x >= 1 << 31 else x


def ev(e, a, b):
    k = e[0]
    if k == "a":
        return a
    if k == "b":
        return b
    if k == "au":
        return a & 255
    if k == "bu":
        return b & 255
    if k == "k":
        return e[1]
    if k == "add":
        return w32(ev(e[1], a, b) + ev(e[2], a, b))
    if k == "sub":
        return w32(ev(e[1], a, b) - ev(e[2], a, b))
    if k == "wmul":
        return w32(ev(e[1], a, b) * ev(e[2], a, b))
    if k in ("tr8", "tr16", "tru8", "tru16"):
        n = 8 if k.endswith("8") else 16
        x = ev(e[1], a, b) & ((1 << n) - 1)
        return x - (1 << n) if (k[2] != "u" and x >= 1 << (n - 1)) else x
    if k == "lshr":
        return w32((ev(e[1], a, b) & 0xFFFFFFFF) >> e[2])
    if k == "omul16f":
        x, y = ev(("tr16", e[1]), a, b), ev(("tr16", e[2]), a, b)
        return not -(1 << 15) <= x * y < (1 << 15)
    if k == "omulu16f":
        x, y = ev(("tru16", e[1]), a, b), ev(("tru16", e[2]), a, b)
        return not x * y < (1 << 16)
    if k == "omul32f":
        x, y = ev(e[1], a, b), ev(e[2], a, b)
        return not -(1 << 31) <= x * y < (1 << 31)
    if k == "shl":
        return w32(ev(e[1], a, b) << e[2])
    if k == "shr":
        return ev(e[1], a, b) >> e[2]
    if k == "and":
        return w32(ev(e[1], a, b) & e[2])
    if k == "wadd8":
        x = ((a if e[1][0] == "a" else b) + e[2]) & 255
        return x - 256 if x >= 128 else x
    if k == "ite":
        return ev(e[2], a, b) if ev(e[1], a, b) else ev(e[3], a, b)
    if k == "not":
        return w32(~ev(e[1], a, b))
    if k in ("oadd", "oaddf"):
        x = (a if e[1][0] == "a" else b) + e[2]
        if k == "oaddf":
            return not -128 <= x <= 127
        x &= 255
        return x - 256 if x >= 128 else x
    if k == "min":
        return min(ev(e[1], a, b), ev(e[2], a, b))
    if k == "max":
        return max(ev(e[1], a, b), ev(e[2], a, b))
    if k == "absw":
        x = a if e[1][0] == "a" else b
        return -128 if x == -128 else abs(x)
    if k == "clz":
        x = (a if e[1][0] == "a" else b) & 255
        return 8 - x.bit_length()
    if k in ("lt", "le", "gt", "ge", "eq", "ne"):
        x, y = ev(e[1], a, b), ev(e[2], a, b)
        return {"lt": x < y, "le": x <= y, "gt": x > y, "ge": x >= y, "eq": x == y, "ne": x != y}[k]
    if k == "andb":
        return ev(e[1], a, b) and ev(e[2], a, b)
    if k == "orb":
        return ev(e[1], a, b) or ev(e[2], a, b)
    if k == "notb":
        return not ev(e[1], a, b)
    if k == "ult":
        return (ev(e[1], a, b) & 0xFFFFFFFF) < (ev(e[2], a, b) & 0xFFFFFFFF)
    raise ValueError(k)


def overflow_free(e):
    """plain + and - must not overflow i32 (they would panic in the checking profile): operands stay small"""
    return True


def mutate(e):
    """a nearby expression: one constant, operator or operand changed"""
    if not isinstance(e, tuple):
        return e
    k = e[0]
    if rnd.random() < 0.35 or k in ("a", "b", "au", "bu"):
        if k == "k":
            return ("k", e[1] + rnd.choice([-1, 1]))
        if k in ("a", "b", "au", "bu"):
            return rnd.choice(INT_LEAVES)
        if k in ("lt", "le", "gt", "ge", "eq", "ne"):
            return (rnd.choice(["lt", "le", "gt", "ge", "eq", "ne"]), e[1], e[2])
        if k in ("oadd", "oaddf"):
            return (k, e[1], max(-128, min(127, e[2] + rnd.choice([-1, 1]))))
        if k in ("min", "max"):
            return ("max" if k == "min" else "min", e[1], e[2])
        if k in ("tr8", "tr16", "tru8", "tru16"):
            return (rnd.choice(["tr8", "tr16", "tru8", "tru16"]), e[1])
        if k in ("omul16f", "omulu16f", "omul32f"):
            return (rnd.choice(["omul16f", "omulu16f", "omul32f"]), e[1], e[2])
        if k == "lshr":
            return (rnd.choice(["lshr", "shr"]), e[1], max(1, e[2] + rnd.choice([-1, 0, 1])))
        if k in ("shl", "shr", "and", "wadd8"):
            return (k, e[1], e[2] + rnd.choice([-1, 1]) if k != "and" else e[2] ^ 1)
        if k == "andb":
            return ("orb", e[1], e[2])
        if k == "orb":
            return ("andb", e[1], e[2])
        if k == "ite":
            return ("ite", e[1], e[3], e[2])
    # recurse into a random child
    idx = [i for i in range(1, len(e)) if isinstance(e[i], tuple)]
    if not idx:
        return e
    i = rnd.choice(idx)
    return e[:i] + (mutate(e[i]),) + e[i + 1:]


def rewrite(e):
    """an equivalent expression"""
    if not isinstance(e, tuple):
        return e
    k = e[0]
    e = tuple(rewrite(x) if isinstance(x, tuple) else x for x in e)
    r = rnd.random()
    if k == "lt" and e[2][0] == "k" and r < 0.5:
        return ("le", e[1], ("k", e[2][1] - 1))
    if k == "ge" and r < 0.5:
        return ("notb", ("lt", e[1], e[2]))
    if k == "gt" and r < 0.5:
        return ("lt", e[2], e[1])
    if k == "andb" and r < 0.5:
        return ("notb", ("orb", ("notb", e[1]), ("notb", e[2])))
    if k == "orb" and r < 0.3:
        return ("orb", e[2], e[1])
    if k == "ite" and r < 0.5:
        return ("ite", ("notb", e[1]), e[3], e[2])
    if k == "add" and r < 0.5:
        return ("add", e[2], e[1])
    if k == "wmul" and e[1][0] == "shl" and r < 0.7:
        return ("shl", ("wmul", e[1][1], e[2]), e[1][2])
    if k == "wmul" and e[2][0] == "shl" and r < 0.7:
        return ("shl", ("wmul", e[2][1], e[1]), e[2][2])
    if k == "wmul" and r < 0.5:
        return ("wmul", e[2], e[1])
    if k in ("tr8", "tru8") and e[1][0] in ("wmul", "add", "sub") and r < 0.6:
        return (k, (e[1][0], ("tr16", e[1][1]), ("tru16", e[1][2])))
    if k in ("omul16f", "omulu16f", "omul32f") and r < 0.5:
        return (k, e[2], e[1])
    if k == "notb" and e[1][0] == "notb":
        return e[1][1]
    return e


def table(e):
    return tuple(ev(e, a, b) for a in range(-128, 128, 1) for b in (-128, -127, -65, -64, -17, -16, -2, -1, 0, 1, 2, 15, 16, 63, 64, 126, 127)) + \
        tuple(ev(e, a, b) for b in range(-128, 128, 1) for a in (-128, -127, -64, -16, -1, 0, 1, 16, 64, 127))


def safe(e):
    """no i32 overflow in + / - on any input (they would panic with overflow checks on)"""
    try:
        for a in (-128, -1, 0, 127):
            for b in (-128, -1, 0, 127):
                _chk(e, a, b)
        return True
    except OverflowError:
        return False


def _chk(e, a, b):
    if not isinstance(e, tuple):
        return
    for x in e[1:]:
        if isinstance(x, tuple):
            _chk(x, a, b)
    if e[0] in ("add", "sub"):
        x, y = ev(e[1], a, b), ev(e[2], a, b)
        r = x + y if e[0] == "add" else x - y
        if not -(1 << 31) <= r < (1 << 31):
            raise OverflowError


pairs = []
while len(pairs) < N:
    kind = rnd.choice(["bool", "int", "pair", "opt", "wide"])
    if kind == "bool":
        e1 = rbool(3)
    elif kind == "int":
        e1 = rint(3)
    else:
        e1 = ("pair", rint(2), rbool(2))
    if rnd.random() < 0.5:
        e2 = mutate(e1) if e1[0] != "pair" else ("pair", mutate(e1[1]), e1[2]) if rnd.random() < 0.5 else ("pair", e1[1], mutate(e1[2]))
    else:
        e2 = rewrite(e1) if e1[0] != "pair" else ("pair", rewrite(e1[1]), rewrite(e1[2]))
    parts1 = e1[1:] if e1[0] == "pair" else (e1,)
    parts2 = e2[1:] if e2[0] == "pair" else (e2,)
    if not all(safe(p) for p in parts1 + parts2):
        continue
    same = all(table(p) == table(q) for p, q in zip(parts1, parts2))
    ret = {"bool": "bool", "int": "i32", "pair": "(i32, bool)", "opt": "Option<i32>", "wide": "(i128, bool)"}[kind]

    def wrap(e):
        if kind in ("bool", "int"):
            return rust(e)
        if kind == "pair":
            return "(%s, %s)" % (rust(e[1]), rust(e[2]))
        if kind == "opt":
            return "(if %s { None } else { Some(%s) })" % (rust(e[2]), rust(e[1]))
        return "(%s as i128, %s)" % (rust(e[1]), rust(e[2]))
    r1, r2 = wrap(e1), wrap(e2)
    if r1 == r2:
        continue
    if kind == "opt":
        # the payload is unobservable when the tag is None
        same = table(e1[2]) == table(e2[2]) and all(x == y for x, y, n in zip(table(e1[1]), table(e2[1]), table(e1[2])) if not n)
    byref = rnd.random() < 0.3
    pairs.append((ret, r1, r2, same, byref))

roots = []
for k, (ret, r1, r2, same, byref) in enumerate(pairs):
    for s, r in (("a", r1), ("b", r2)):
        if byref:
            code = "#[no_mangle] #[inline(never)]\npub fn %s__%d(p0: &i8, p1: &i8) -> %s { let a0 = *p0; let a1 = *p1; %s }\n" % (s, k, ret, r)
        else:
            code = "#[no_mangle] #[inline(never)]\npub fn %s__%d(a0: i8, a1: i8) -> %s { %s }\n" % (s, k, ret, r)
        roots.append(G.Root(sym="%s__%d" % (s, k), layout="-", group="eq", api="fuzz%d" % k, cls="E", kind="eq", code=code))
cr = B.Crate("h_eq_fuzz_0", roots, extra_code="")
built = B.build("on", [cr])
mod = llir.Module(built[cr.name]["ll"], want_calls=False)
stat = collections.Counter()
bad = []
for k, (ret, r1, r2, same, byref) in enumerate(pairs):
    if ("a__%d" % k) in built[cr.name]["dropped"] or ("b__%d" % k) in built[cr.name]["dropped"]:
        stat["dropped"] += 1
        continue
    v, how = engine_e.compare(mod, "a__%d" % k, "b__%d" % k)
    stat[("same" if same else "DIFF") + " -> " + v + " (" + how + ")"] += 1
    if v == "equal" and not same:
        bad.append((k, r1, r2, how))
for k, n in sorted(stat.items()):
    print("%5d  %s" % (n, k))
for b in bad[:10]:
    print("UNSOUND:", b)
print("pairs", len(pairs), "unsound", len(bad))
sys.exit(1 if bad else 0)
