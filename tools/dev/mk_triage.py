"""Developer tool (not a check): (re)generate tables/panic_triage.json from a
thorough Engine-A sweep of the *repaired pinned tree* and the hand-written
rules below.  A residual key enters the table only if a rule names it and
gives the invariant that makes it infeasible; keys without a rule are printed
as UNTRIAGED and stay violations.

usage: python3 tools/dev/sweep_a.py thorough && python3 tools/dev/mk_triage.py
"""
import json
import os
import re
import sys

sys.path.insert(0, os.path.join(os.path.dirname(os.path.abspath(__file__)), ".."))
from vf import common as C

NZ = ["guard=div", "policy=checked", "cls=P"]
NZ_WHY = ("divisor is non-zero here: the checked_ forms return None for a zero divisor before any "
          "arithmetic, the other forms are analysed under the property's `divisor != 0` precondition "
          "(a zero divisor is their documented panic)")

# (regex on key, applies, reason)
RULES = [
    # ---- arith.rs / wide_div.rs / int_helper.rs ---------------------------------
    (r"^<[iu]N as substrate_fixed::arith::MulDivOverflow>::div_overflow \| div0$",
     NZ + ["api=sqrt", "api=tan", "api=exp", "api=powi", "api=pow", "api=ln", "api=log2"],
     NZ_WHY + "; in transcendental.rs every division is a checked_div (zero tested first), a division by the "
     "constants 2 / LOG2_E, sqrt's `operand / l` with l >= sqrt(x) - 1.5ulp > 0 (AM-GM with two truncations, "
     "x >= 1 after the reciprocal pre-scaling), or tan's `sin / (1 + cos)` inside the property's domain "
     "|tan x| <= 64 where 1 + cos 2x = 2/(1+tan^2 x) >= 4.9e-4 (assumes the 2^-16 accuracy of C16)"),
    (r"^<[iu]N as substrate_fixed::arith::MulDivOverflow>::div_overflow \| overflow:(shr|sub)$", "any",
     "`self >> (NBITS - frac_nbits)` in the 128-bit helper, reached only with 0 < frac_nbits < NBITS: "
     "frac_nbits is Frac::U32 <= 128 by the LeEqU128 bound, the == 0 and == NBITS cases are separate branches"),
    (r"^<iN as substrate_fixed::int_helper::IntHelper>::from_neg_abs \| assert \| assertion failed: abs <= Self::Unsigned::MSB$",
     "any", "called by wide_div with the remainder's magnitude: |r| < |d| <= 2^(n-1) = MSB"),
    (r"^<uN as substrate_fixed::arith::MulDivOverflow>::mul_overflow \| overflow:add$", "any",
     "`lh_rh + col12_hi + carry`: all terms are non-negative and their sum is the true high limb of a "
     "product of two 128-bit numbers, which is <= 2^128 - 2"),
    (r"^<uN as substrate_fixed::wide_div::DivHalf>::div_half \| div0$", "any",
     "`d` was normalised (shifted left by its leading zeros) so its top bit is set and dh = d >> n/2 >= 2^(n/2-1)"),
    (r"^<uN as substrate_fixed::wide_div::DivHalf>::div_half \| overflow:mul$", "any",
     "r < d implies q = r/dh <= 2^(n/2)+1 and d.lo() <= 2^(n/2)-1, so q*d.lo() <= 2^n - 1"),
    (r"^<uN as substrate_fixed::wide_div::DivHalf>::div_half \| overflow:sub$", "any",
     "`q -= 1` twice: the first is guarded by r < m which is false when q == 0 (m == 0); the second is taken "
     "only if r + d < m without carry, impossible when q was 1 (then m = d.lo() <= d <= r + d)"),
    (r"^<uN as substrate_fixed::wide_div::DivHalf>::normalize \| assert \| division by zero$",
     NZ + ["group=parse", "group=transc", "group=wrap"],
     NZ_WHY + "; the decimal parser divides by the constant 2*5^54; transcendental divisors as for div_overflow; "
     "Wrapping roots carry the divisor guard or go through FromStr"),
    # ---- From / LossyFrom roots (convert.rs) ------------------------------------------------
    (r"^(ROOT|substrate_fixed::convert::<impl substrate_fixed::traits::LossyFrom<.*> for .*>::lossy_from) \| assert_fmt \| via from_fixed\+(to_num|to_fixed\+from_num)$", ["group=from"],
     "`debug_assert!(!overflow)` of to_num / from_num reached from an infallible From / LossyFrom impl: such impls exist "
     "only where the destination has at least the source's integer bits (the impl's where-clause; Engine T probes that "
     "no impl exists outside that arithmetic specification), so the conversion's overflow flag is false for every "
     "source value; at these pairs LLVM does not fold the 128-bit leading-bit count into a constant"),
    # ---- macros_frac.rs -------------------------------------------------------------
    (r"^substrate_fixed::FixedS<Frac>::(checked|overflowing)_rem_euclid_int \| overflow:sub$", "any",
     "`rhs_abs - rem_int_abs - (frac > 0)`: the remainder is negative with |rem| < |rhs| and rhs is an integer, "
     "so ceil|rem| <= |rhs|"),
    (r"^substrate_fixed::Fixed[SU]<Frac>::(checked_div_euclid_int|overflowing_div_euclid_int|overflowing_rem_euclid_int|overflowing_rem_int|wrapping_rem_int) \| expect \| division by zero \| via rem$",
     NZ, "`self % rhs` = checked_rem_int(rhs).expect(..): rhs != 0 (" + NZ_WHY + ") and then "
     "checked_from_num(rhs) is None (handled without division) or Some(rhs * 2^frac) != 0"),
    (r"^substrate_fixed::traits::Fixed::(overflowing_rem_int|wrapping_rem_int) \| expect \| division by zero \| via rem$",
     NZ, "trait default method, same argument as the inherent *_rem_int forms"),
    (r"^<substrate_fixed::wrapping::Wrapping<substrate_fixed::FixedS<Frac>> as core::ops::arith::Rem(Assign)?<iN>>::rem(_assign)? \| expect \| division by zero \| via rem$",
     ["guard=div"], "Wrapping % integer forwards to F % integer = checked_rem_int(rhs).expect(..); under the "
     "property's zero-divisor exemption rhs != 0, so the converted divisor is None or non-zero"),
    # ---- float_helper.rs / int_helper.rs reached with run-time layout arguments --------
    (r"^<fN as substrate_fixed::float_helper::FloatHelper>::to_float_kind \| overflow:sub$", "any",
     "`src_frac_bits - dst_frac_bits as i32`: |src_frac_bits| <= 1074 + 52 and dst_frac_bits <= 128"),
    (r"^<fN as substrate_fixed::float_helper::FloatHelper>::from_to_float_helper \| overflow:shl$", "any",
     "`val.abs << leading_zeros << 1`: signif_bits == 0 returned earlier, so leading_zeros < fix_bits <= 128"),
    (r"^<iN as substrate_fixed::int_helper::IntHelper>::to_fixed_helper \| assert \| internal error: entered unreachable code$",
     "any", "the match on need_to_shr covers every i32 except i32::MIN, and |need_to_shr| <= 1074 + 52 + 128"),
    (r"^<[iu]N as substrate_fixed::int_helper::IntHelper>::to_fixed_helper \| overflow:(add|sub)$", "any",
     "sums/differences of bit counts: dst_frac_bits + dst_int_bits <= 128, src_bits - dst_bits, "
     "need_to_shr + leading, all within +-1400"),
    # ---- transcendental.rs (types with >= 9 integer bits and >= 23 fractional bits) -----
    (r"^substrate_fixed::transcendental::cordic_rotation \| overflow:(add|sub) \| via (add|sub)(_assign)?$",
     ["guard=mag"], "|x|,|y| <= K * prod sqrt(1+2^-2i) < 1.65 throughout the rotation and |z| <= |angle| + sum atan(2^-i) < 5; "
     "at least 9 integer bits"),
    (r"^substrate_fixed::transcendental::cos \| overflow:add \| via add$", ["guard=mag"],
     "`angle + pi/2` with |angle| <= 200 (property domain; tan doubles an angle of at most 100) and max >= 255.99"),
    (r"^substrate_fixed::transcendental::ln \| assert \| overflow \| via div$", "any",
     "division by LOG2_E = 1.4427 > 1 shrinks the magnitude"),
    (r"^substrate_fixed::transcendental::log2 \| overflow:neg \| via neg$", "any",
     "log2_inner >= 0 (an integer count plus fraction bits), never MIN"),
    (r"^substrate_fixed::transcendental::log2_inner \| assert \| overflow \| via mul(\+mul_assign)?$", "any",
     "loop invariant 1 <= x < 2 before `x *= x`, so x^2 < 4 needs 3 integer bits"),
    (r"^substrate_fixed::transcendental::log2_inner \| assert_fmt \| via from_fixed\+to_fixed\+from_num$", "any",
     "`D::from_num(result)` with result <= int_nbits - 1 <= 127 < 2^(int_nbits-1) for >= 9 integer bits"),
    (r"^substrate_fixed::transcendental::log2_inner \| overflow:add$", "any",
     "`result += lsb` runs once per halving, at most int_nbits times"),
    (r"^substrate_fixed::transcendental::sqrt \| assert \| overflow \| via div$", "any",
     "`operand / 2`, `operand / l` (l >= 1 - 1.5ulp so the quotient is <= operand + 2) and `(..) / 2` cannot exceed the operand's magnitude by more than the type's headroom"),
    (r"^substrate_fixed::transcendental::sqrt \| overflow:add \| via add$", "any",
     "`operand/2 + 1 <= max/2 + 1 < max`, and `l + operand/l < x/2 + sqrt(x) + 3 <= max` for >= 5 integer bits"),
    (r"^substrate_fixed::transcendental::tan \| assert \| overflow \| via div$", ["guard=mag"],
     "inside the property's domain |tan x| <= 64 the quotient is < 70 < 255 (assumes C16's 2^-16 accuracy of sin/cos)"),
    (r"^substrate_fixed::transcendental::tan \| assert \| overflow \| via mul(\+mul_assign)?$", ["guard=mag"],
     "`angle *= 2` with |angle| <= 100"),
    (r"^substrate_fixed::transcendental::tan \| overflow:add \| via add$", ["guard=mag"],
     "`1 + cos` with |cos| <= 1 + 2^-16"),
    # ---- display.rs -----------------------------------------------------------------------
    (r"^<uN as substrate_fixed::display::FmtHelper>::write_(int|frac) \| assert \| assertion failed: self [!=]= 0$", "any",
     "digit counts are exactly ceil(used_bits / digit_bits): before each digit some significant bit remains, after the last none"),
    (r"^<uN as substrate_fixed::display::FmtHelper>::write_int_dec \| assert \| assertion failed: self == 0$", "any",
     "10^ceil_log10_2_times(b) >= 2^b > self (0x4D104D43 / 2^32 > log10 2)"),
    (r"^substrate_fixed::display::Buffer::set_len \| assert \| out of bounds$", "any",
     "int_digits <= int_used_nbits and frac_digits <= frac_used_nbits <= frac_nbits, so the sum is <= 128 < 130"),
    (r"^substrate_fixed::display::Buffer::(int|frac|encode_digits) \| (overflow:add|slice)$", "any",
     "indices 1 + int_digits (+ 1 + frac_digits) <= 130 = data.len() because int_digits + frac_digits <= 128"),
    (r"^substrate_fixed::display::Buffer::round_and_trim \| (overflow:add|bounds|slice)$", "any",
     "1 <= len <= int_digits + frac_digits + 2 <= 130"),
    (r"^substrate_fixed::display::Buffer::round_and_trim \| assert \| assertion failed: self.frac_digits == 0$", "any",
     "the carry reaches the '.' only after zeroing (and un-counting) every fraction digit"),
    (r"^substrate_fixed::display::Buffer::round_and_trim \| overflow:sub$", "any",
     "`frac_digits -= trim` where trim counts zeros inside a slice of length frac_digits"),
    (r"^substrate_fixed::display::Buffer::pad_and_print \| overflow:add$", "any",
     "sums of sign/prefix lengths, digit counts <= 130 and end_zeros <= precision <= 65535 (Formatter stores precision as u16 on this toolchain)"),
    (r"^substrate_fixed::display::Buffer::pad_and_print \| overflow:sub$", "any",
     "`.. + abs_end - abs_begin`: abs_begin in {1,2} implies that many integer digits exist, so abs_end >= abs_begin"),
    (r"^substrate_fixed::display::Buffer::pad_and_print::\{closure\} \| overflow:sub$", "any",
     "`precision - frac_digits`: frac_digits starts as min(.., precision) and only decreases"),
    (r"^substrate_fixed::display::Buffer::pad_and_print \| slice$", "any",
     "abs_begin <= abs_end <= int_digits + frac_digits + 2 <= 130"),
    (r"^substrate_fixed::display::Buffer::pad_and_print \| unwrap_result \| called `Result::unwrap\(\)` on an `Err` value$", "any",
     "every byte of the printed range was encoded to an ASCII digit/letter or is '.'"),
    (r"^substrate_fixed::display::fmt_dec \| overflow:(shl|shr)$", "any",
     "third arm of `frac_nbits == 0 / == NBITS / else`, so both shift amounts are in 1..NBITS-1"),
    # ---- from_str.rs ------------------------------------------------------------------------
    (r"^<uN as substrate_fixed::from_str::DecToBin>::dec_to_bin \| assert \| assertion failed: (val|hi|lo) < ", "any",
     "parse_is_short pads len <= DEC digits by 10^(DEC-len) or truncates to DEC digits, so the value is < 10^DEC"),
    (r"^<uN as substrate_fixed::from_str::DecToBin>::dec_to_bin \| overflow:sub$", "any",
     "`div -= 1` only when div is odd, hence >= 1"),
    (r"^<uN as substrate_fixed::from_str::DecToBin>::parse_is_short \| overflow:mul$", "any",
     "10^rem with rem <= DEC and digits*pad < 10^DEC, and 10^DEC fits the double-width type (3/u16, 6/u32, 13/u64, 27/u128)"),
    (r"^substrate_fixed::from_str::(bin|oct|hex|dec)_str_(int|frac)_to_bin \| overflow:sub$", "any",
     "`byte - b'0'` on bytes parse_bounds accepted as digits of the radix (all >= b'0'), and `NBITS - nbits` with nbits <= NBITS"),
    (r"^substrate_fixed::from_str::(bin|oct|hex)_str_(int|frac)_to_bin \| overflow:add$", "any",
     "`(acc << k) + digit`: the low k bits of acc << k are zero and digit < 2^k (tail: addend < 2^rem_bits)"),
    (r"^substrate_fixed::from_str::(bin|oct|hex)_str_frac_to_bin \| overflow:shl$", "any",
     "`acc << rem_bits` after the loop consumed at least one digit (callers test is_empty), so rem_bits <= nbits - 1 < NBITS"),
    (r"^substrate_fixed::from_str::dec_str_frac_to_bin \| overflow:(add|shl)$", "any",
     "`(floor << dump_bits) + (one << (dump_bits-1))` in the arm with 1 <= dump_bits <= NBITS-1 and floor < 2^nbits"),
    (r"^substrate_fixed::from_str::frac_is_half \| overflow:sub$", "any",
     "`bytes[0] - b'0'` on a digit byte"),
    (r"^substrate_fixed::from_str::get_frac(8|16|32|64|128) \| assert \| internal error: entered unreachable code$", "any",
     "radix is one of 2, 8, 10, 16: FromStrRadix is crate-private and called with literals only; any other radix would make parse_bounds reject every digit first"),
    (r"^substrate_fixed::from_str::get_int(8|16|32|64|128) \| overflow:sub$", "any",
     "`NBITS - nbits` with nbits = int_nbits <= NBITS (<= NBITS/2 when delegated to the half-width helper)"),
    (r"^substrate_fixed::from_str::get_int_frac(8|16|32|64|128) \| overflow:shl$", "any",
     "`1 << frac_nbits` in the else arm of `int_nbits == 0`, so frac_nbits <= NBITS - 1"),
    (r"^substrate_fixed::from_str::parse_bounds \| overflow:add$", "any",
     "enumerate's counter: index < len"),
    (r"^substrate_fixed::from_str::parse_bounds \| slice$", "any",
     "start is set only before a point is seen (start < point < len); end >= point + 1 and end <= len"),
]


# entries whose reason rests on what another function's *result* guarantees: (regex on key, regex on the MIR name of
# that supplier).  The supplier's decision structure (engine_fp.body_fingerprint) is recorded with the entry.
SUPPLIERS = [
    (r"^substrate_fixed::from_str::((bin|oct|hex|dec)_str_(int|frac)_to_bin|frac_is_half) \| overflow:sub$", r"^parse_bounds$"),
]


def main():
    sweep = {"keys": {}}
    for tier in ("thorough", "quick"):
        sw = C.load_json(os.path.join(C.WORK, "sweep_%s_on.json" % tier))
        for k, v in sw["keys"].items():
            e = sweep["keys"].setdefault(k, {"pos": []})
            e["pos"] = sorted(set(e["pos"]) | set(v["pos"]))
    from vf import engine_fp
    mir = engine_fp.Mir()
    entries = []
    untriaged = []
    used = set()
    for key, v in sorted(sweep["keys"].items()):
        if key.startswith("ROOT") and not any(re.search(rx, key) for rx, _a, _w in RULES if rx.startswith("^(ROOT")):
            continue
        hit = None
        for i, (rx, applies, why) in enumerate(RULES):
            if re.search(rx, key):
                hit = (i, applies, why)
                break
        if hit is None:
            untriaged.append(key)
            continue
        used.add(hit[0])
        npos = len([p for p in v["pos"] if p not in ("root", "?")])
        parts = key.split(" | ")
        kind, msg, via = parts[1], None, []
        for pp in parts[2:]:
            if pp.startswith("via "):
                via = pp[4:].split("+")
            else:
                msg = pp
        fps = set()
        for pos in v["pos"]:
            fps.update(mir.fingerprints(pos, kind, msg, via))
        if not fps and via:
            # keys are normalised (`x += y` is keyed as `add`); the MIR still has the assigning callee
            for alt in ([via[-1] + "_assign"], via + [via[-1] + "_assign"]):
                for pos in v["pos"]:
                    fps.update(mir.fingerprints(pos, kind, msg, via[:-1] + alt if len(alt) == 1 else alt))
                if fps:
                    break
        ent = {"key": key, "status": "infeasible", "max_distinct_locations": npos,
               "applies": hit[1], "reason": hit[2], "fingerprints": sorted(fps),
               "caller_fingerprints": mir.caller_fingerprints(parts[0])}
        for krx, srx in SUPPLIERS:
            if re.search(krx, key):
                n, fp = mir.body_fingerprint(srx)
                if n != 1:
                    print("supplier %s matches %d functions" % (srx, n))
                ent.setdefault("suppliers", {})[srx] = fp
        entries.append(ent)
    for i, r in enumerate(RULES):
        if i not in used:
            print("rule matched nothing:", r[0])
    for k in untriaged:
        print("UNTRIAGED:", k)
    out = {"comment": "Engine A residual sites argued infeasible on the repaired pinned tree; generated by "
                      "tools/dev/mk_triage.py from a thorough sweep plus hand-written invariants. Keys carry "
                      "no line numbers. `applies`: 'any' or a list of root conditions (any one suffices).",
           "entries": entries}
    C.save_json(os.path.join(C.TABLES, "panic_triage.json"), out)
    print(len(entries), "entries written;", len(untriaged), "untriaged")


if __name__ == "__main__":
    main()
