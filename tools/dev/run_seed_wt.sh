#!/bin/bash
# usage: run_seed_wt.sh <seed-name> <property> [tier]  -- like run_seed.sh but on the scratch worktree /tmp/seed/mut-wt
# (VERIF_REPO), so that /repo stays untouched while other runs use it; the official protocol is run_seed.sh
name=$1; prop=$2; tier=${3:-quick}
wt=/tmp/seed/mut-wt
cd /verif
git -C $wt checkout -- . ; git -C $wt status --porcelain | grep -v '^??' | grep -q . && { echo "$wt not clean"; exit 2; }
git -C $wt apply /verif/seeded/$name/patch.diff || exit 2
VERIF_REPO=$wt python3 check.py $prop --tier $tier > /verif/.work/seedrun-$name-$prop-$tier.log 2>&1; rc=$?
git -C $wt checkout -- .
echo "seed=$name property=$prop tier=$tier exit=$rc"
grep "VIOLATION\|violating construct\|^OK\|ENGINE-ERROR" /verif/.work/seedrun-$name-$prop-$tier.log | cut -c1-300 | head -6
