"""Developer tool: (re)generate tables/flag_drops.json from the MIR of the (clean, pinned) tree."""
import sys, os
sys.path.insert(0, os.path.join(os.path.dirname(os.path.abspath(__file__)), ".."))
from vf import engine_s as ES, common as C
fns = ES.parse_mir(ES.mir_text())
drops, n = ES.flag_drops(fns)
ent = [{"fn": k[0], "callee": k[1], "max": v, "owner": ES._flag_owner(k[0], k[1])} for k, v in sorted(drops.items())]
C.save_json(ES.FLAG_TABLE, {"comment": "overflowing_* calls whose flag is discarded on the pinned tree (per normalised function and callee: "
                            "maximal number in one body). Reviewed: all are wrapping_ forms and value-only uses where the flag is "
                            "recomputed or irrelevant by construction.", "calls_floor": int(n * 0.97), "entries": ent})
print(n, "calls;", len(ent), "entries")
for e in ent:
    print(e["max"], e["owner"], e["fn"][:110], e["callee"])
