"""Developer tool: replace the table of DESIGN.md section 9.6 by the current output of mk_matrix.py."""
import subprocess, re
m = subprocess.run(["python3", "/verif/tools/dev/mk_matrix.py"], capture_output=True, text=True).stdout
s = open("/verif/DESIGN.md").read()
a = s.index("| seed | prop. | round |")
b = s.index("What the ", a)
s = s[:a] + m + "\n" + s[b:]
open("/verif/DESIGN.md", "w").write(s)
print(m.strip().splitlines()[-1])
