#!/usr/bin/env python3
"""Developer tool: confirm a round-6+ seeded change, copy it to /verif/seeded/<name>/ and run the property's quick check on it.
usage: import_seed.py <round-id> <a|b> <name> <property> <change> <needs> [--release] [--round N]"""
import sys, os, subprocess, json, shutil, re
rid, x, name, prop, change, needs = sys.argv[1:7]
rel = ["--release"] if "--release" in sys.argv else []
rnd = sys.argv[sys.argv.index("--round") + 1] if "--round" in sys.argv else "6"
V = "/verif"
out = "/tmp/seed/%s-out/%s" % (rid, x)
r = subprocess.run([V + "/tools/dev/confirm_seed3.sh", rid, x] + rel, capture_output=True, text=True)
print(r.stdout[-600:])
if "\nCONFIRMED" not in "\n" + r.stdout:
    sys.exit("not confirmed")
g = lambda pat: (re.search(pat, r.stdout) or [None, "?"])[1]
dst = "%s/seeded/%s" % (V, name)
if os.path.exists(dst):
    shutil.rmtree(dst)
os.makedirs(dst)
shutil.copy(out + "/patch.diff", dst)
shutil.copy(out + "/NOTES.md", dst)
shutil.copytree(out + "/demo", dst + "/demo", ignore=shutil.ignore_patterns("target"))
meta = {"property": prop, "name": name, "change": change, "needs_to_manifest": needs,
        "origin": "independent sub-agent given only the property record and a scratch worktree (round %s)" % rnd,
        "confirmed": {"lib_tests_with_change": g(r"tests with change: test result: ok\. (\d+ passed; \d+ failed)"),
                      "demo_with_change": "exit " + g(r"demo with change: exit (\d+)"),
                      "demo_without_change": "exit " + g(r"demo without change: exit (\d+)"),
                      "how": "tools/dev/confirm_seed3.sh in the scratch worktree (git apply patch.diff; cargo test --offline --lib; cargo run --offline%s of demo/ with the change and after `git checkout -- .`)" % (" --release" if rel else "")}}
json.dump(meta, open(dst + "/meta.json", "w"), indent=1)
r2 = subprocess.run([V + ("/tools/dev/run_seed_wt.sh" if "--wt" in sys.argv else "/tools/dev/run_seed.sh"), name, prop], capture_output=True, text=True)
print(r2.stdout[-1500:], r2.stderr[-300:])
m = re.search(r"exit=(\d+)", r2.stdout)
rc = int(m.group(1)) if m else -1
lines = [l for l in r2.stdout.splitlines()[1:] if l.strip()]
meta["check_run"] = {"protocol": "git -C /repo apply seeded/%s/patch.diff; python3 check.py %s --tier quick; git -C /repo checkout -- .  (tools/dev/run_seed.sh)" % (name, prop),
                     "exit": rc, "caught": rc == 1, "first_report": (lines[0][:400] if lines else "")}
json.dump(meta, open(dst + "/meta.json", "w"), indent=1)
