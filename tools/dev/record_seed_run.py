"""Developer tool: write the outcome of an official seed run into the seed's meta.json."""
import json, sys, re
p, name, prop, tier, f = sys.argv[1:6]
out = open(f).read()
m = json.load(open(p))
rc = re.search(r"exit=(\d+)", out)
rc = int(rc.group(1)) if rc else -1
lines = [l for l in out.splitlines()[1:] if l.strip()]
old = m.get("check_run", {})
new = {"protocol": "git -C /repo apply seeded/%s/patch.diff; python3 check.py %s --tier %s; git -C /repo checkout -- .  (tools/dev/run_seed.sh)" % (name, prop, tier),
       "exit": rc, "caught": rc == 1, "first_report": (lines[0][:400] if lines else "")}
if old.get("history"):
    new["history"] = old["history"]
elif old and old.get("caught") is False and rc == 1:
    new["history"] = "missed when first run; caught after the machinery was strengthened because of this seed"
m["check_run"] = new
json.dump(m, open(p, "w"), indent=1)
