"""Developer tool: build a few 128-bit roots and print their IR / E3 verdicts."""
import sys, os
sys.path.insert(0, os.path.join(os.path.dirname(os.path.abspath(__file__)), ".."))
from vf import build as B, gen as G, llir
lays = sys.argv[1].split(",")
roots = []
for L in lays:
    for nm, ret, body in (("omul", "(%s, bool)" % L, "a0.overflowing_mul(a1)"), ("wmul", L, "a0.wrapping_mul(a1)")):
        sym = "a__%s__%s" % (nm, L)
        code = "#[no_mangle] #[inline(never)]\npub fn %s(a0: %s, a1: %s) -> %s { %s }\n" % (sym, L, L, ret, body)
        roots.append(G.Root(sym=sym, layout=L, group="eq", api=nm, cls="E", kind="eq", code=code))
cr = B.Crate("h_eq_algdev_0", roots, extra_code="")
built = B.build("on", [cr])
print(built[cr.name]["ll"])
