"""Developer experiment: fixed-length parsing pairs."""
import sys, os
sys.path.insert(0, os.path.join(os.path.dirname(os.path.abspath(__file__)), ".."))
from vf import build as B, gen as G, llir, engine_e, eq_specs
pairs = []
def P(name, params, ret, a, b):
    pairs.append((name, params, ret, a, b))
for (L, ity, signed) in (("U8F0", "u8", False), ("I8F0", "i8", True), ("U16F0", "u16", False)):
    for meth, rdx in (("from_str_binary", 2), ("from_str_octal", 8), ("from_str", 10), ("from_str_hex", 16)):
        dig = {2: "b'0'..=b'1' => Ok((b - b'0') as %s)," % ity, 8: "b'0'..=b'7' => Ok((b - b'0') as %s)," % ity,
               10: "b'0'..=b'9' => Ok((b - b'0') as %s)," % ity,
               16: "b'0'..=b'9' => Ok((b - b'0') as %s), b'a'..=b'f' => Ok((b - b'a' + 10) as %s), b'A'..=b'F' => Ok((b - b'A' + 10) as %s)," % (ity, ity, ity)}[rdx]
        call = ("{ let arr = [b]; match core::str::from_utf8(&arr) { Err(_) => Err(()), Ok(s) => <%s>::%s(s).map(|x| x.to_bits()).map_err(|_| ()) } }"
                % (L, meth if meth != "from_str" else "from_str"))
        if meth == "from_str":
            call = call.replace("<%s>::from_str(s)" % L, "<%s as core::str::FromStr>::from_str(s)" % L)
        spec = "{ if b >= 0x80 { return Err(()); } match b { %s _ => Err(()) } }" % dig
        P("p1_%s_%s" % (L, meth), "b: u8", "Result<%s, ()>" % ity, call, spec)
roots = []
for k, (name, params, ret, a, b) in enumerate(pairs):
    for s, body in (("a", a), ("b", b)):
        code = "#[no_mangle] #[inline(never)]\npub fn %s__%d(%s) -> %s %s\n" % (s, k, params, ret, body)
        roots.append(G.Root(sym="%s__%d" % (s, k), layout="-", group="eq", api=name, cls="E", kind="eq", code=code))
cr = B.Crate("h_eq_parsedev_0", roots, extra_code=eq_specs.HEADER_EXTRA)
cr.deps = 'codec = { package = "parity-scale-codec", version = "3", default-features = false }\n'
built = B.build("on", [cr])
mod = llir.Module(built[cr.name]["ll"], want_calls=False)
for k, (name, params, ret, a, b) in enumerate(pairs):
    if ("a__%d" % k) in built[cr.name]["dropped"]:
        print(name, "dropped", built[cr.name]["dropped"]["a__%d" % k][:200]); continue
    print(name, engine_e.compare(mod, "a__%d" % k, "b__%d" % k))
