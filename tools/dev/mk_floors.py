"""Developer tool: record the instance counts measured on the repaired pinned tree
as floors (fail closed when an enumeration shrinks).  usage: mk_floors.py quick|thorough"""
import sys, os, json, subprocess
sys.path.insert(0, os.path.join(os.path.dirname(os.path.abspath(__file__)), ".."))
from vf import common as C, props, run_a
tier = sys.argv[1]
floors = C.load_json(run_a.FLOORS_PATH, default={})
floors.setdefault(tier, {})
saved = dict(floors[tier])
floors[tier] = {}
C.save_json(run_a.FLOORS_PATH, floors)      # measure without floors
out = {}
for pid, fn in sorted(props.PROPERTIES.items()):
    rep = C.Report(pid, tier)
    level, cov, _ = fn(rep, tier)
    if rep.violations:
        print("WARNING: %s has violations on this tree; floors not trustworthy" % pid)
    engines = cov.get("engines") or [cov]
    for e in engines:
        name = e.get("engine", "")
        if name.startswith("A "):
            # label is not in coverage; recover from floor key order: use roots_per_group signature
            pass
    print(pid, "ok")
# the drivers know their own labels: re-run with a recording hook
rec = {}
import vf.run_a as RA, vf.run_e as RE, vf.run_l as RL
_ra, _re, _rl = RA.run, RE.run, RL.run
def ra(report, tier_, parts, select, label, **kw):
    c = _ra(report, tier_, parts, select, label, **kw); rec[kw.get("floors_key") or label] = c["roots_analysed"]; return c
def re_(report, tier_, fams, label, select=None):
    c = _re(report, tier_, fams, label, select=select); rec["E:" + label] = c["obligations"]; return c
def rl(report, tier_):
    c = _rl(report, tier_); rec["L"] = c["roots_analysed"]; return c
RA.run, RE.run, RL.run = ra, re_, rl
props.run_a.run, props.run_e.run, props.run_l.run = ra, re_, rl
for pid, fn in sorted(props.PROPERTIES.items()):
    fn(C.Report(pid, tier), tier)
floors[tier] = {k: int(v * 0.97) for k, v in sorted(rec.items())}
C.save_json(run_a.FLOORS_PATH, floors)
print(json.dumps(floors[tier], indent=1))
