"""Developer tool: validates eq_specs.fits_expr (specification code only -- no library code is run) against
exact integer arithmetic: for every configuration the Rust expression is compiled into a scratch program,
evaluated on all 8-bit sources / boundary 128-bit sources, and compared with floor(bits * 2^sh) in range."""
import sys, os, subprocess, tempfile, shutil, math
from fractions import Fraction
sys.path.insert(0, os.path.join(os.path.dirname(os.path.abspath(__file__)), ".."))
from vf.eq_specs import fits_expr

def expected(bits, sh, dsigned, dw):
    v = math.floor(Fraction(bits) * (Fraction(2) ** sh))
    lo, hi = (-(1 << (dw - 1)), (1 << (dw - 1)) - 1) if dsigned else (0, (1 << dw) - 1)
    return lo <= v <= hi

cfgs = []
for ss in (True, False):
    for sw in (8, 128):
        for ds in (True, False):
            for dw in (8, 16, 128):
                for sh in sorted(set(list(range(-17, 18)) + [-129, -128, -127, -126, -121, -120, -119, -113, -112, -111,
                                                             111, 112, 113, 119, 120, 121, 126, 127, 128])):
                    cfgs.append((ss, sw, sh, ds, dw))

def sources(ss, sw):
    if sw == 8:
        return list(range(-128, 128)) if ss else list(range(256))
    out = set()
    top = 127 if ss else 128
    for k in range(0, top + 1):
        for d in (-2, -1, 0, 1, 2):
            for sg in ((1, -1) if ss else (1,)):
                v = sg * (1 << k) + d
                lo, hi = (-(1 << 127), (1 << 127) - 1) if ss else (0, (1 << 128) - 1)
                if lo <= v <= hi:
                    out.add(v)
    return sorted(out)

lines = ["#![allow(arithmetic_overflow, unused_comparisons, overflowing_literals)]\nfn main() {\n"]
for n, (ss, sw, sh, ds, dw) in enumerate(cfgs):
    ty = ("i" if ss else "u") + str(sw)
    srcs = sources(ss, sw)
    lit = ", ".join(("%d" % v) for v in srcs)
    lines.append("  { let s: [%s; %d] = [%s]; let mut o = String::new(); for a0 in s.iter().copied() { let r: bool = %s; "
                 "o.push(if r {'1'} else {'0'}); } println!(\"%d {}\", o); }\n" % (
                     ty, len(srcs), lit, fits_expr(ss, "a0", sh, ds, dw), n))
lines.append("}\n")
d = tempfile.mkdtemp(prefix="vfits")
try:
    with open(os.path.join(d, "m.rs"), "w") as fh:
        fh.write("".join(lines))
    subprocess.check_call(["rustc", "-O", "-Awarnings", "-o", os.path.join(d, "m"), os.path.join(d, "m.rs")])
    out = subprocess.check_output([os.path.join(d, "m")]).decode().split("\n")
finally:
    shutil.rmtree(d)
bad = 0
total = 0
for ln in out:
    if not ln.strip():
        continue
    n, bits = ln.split()
    ss, sw, sh, ds, dw = cfgs[int(n)]
    for v, c in zip(sources(ss, sw), bits):
        total += 1
        if (c == "1") != expected(v, sh, ds, dw):
            bad += 1
            if bad < 20:
                print("MISMATCH", cfgs[int(n)], v, c)
print("configs", len(cfgs), "evaluations", total, "mismatches", bad)
sys.exit(1 if bad else 0)
