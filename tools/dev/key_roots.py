"""Developer tool: for each residual key, which kinds of roots reach it."""
import sys, os, collections, json
sys.path.insert(0, os.path.join(os.path.dirname(os.path.abspath(__file__)), ".."))
from vf import api, plan, facts, engine_a, rules_a, common as C
tier = sys.argv[1] if len(sys.argv) > 1 else "quick"
ap = api.Api()
pl = plan.Plan(ap, tier)
crates = []
for p in plan.PARTS:
    crates += pl.crates(p)
F = facts.engine_a_facts("on", crates, ap)
tri = rules_a.load_triage()
combos = collections.defaultdict(collections.Counter)
for sym, e in F.items():
    if e["dropped"] or e["res"] is None: continue
    m = e["meta"]
    for st in e["res"]["sites"]:
        v, why = rules_a.judge(m, st, tri)
        if v == "permitted": continue
        k = engine_a.site_key(st)
        combos[k][(v, m["group"], m.get("policy"), m.get("guard"), m["cls"], (m.get("base") or m["api"]) if m["group"] in ("transc",) else "")] += 1
for k in sorted(combos):
    print(k)
    for c, n in combos[k].most_common():
        print("      ", n, c)
