import sys, os, re, traceback
sys.path.insert(0, os.path.join(os.path.dirname(os.path.abspath(__file__)), ".."))
from vf import llir, engine_e3 as E3
ll = sys.argv[1]
mod = llir.Module(ll, want_calls=False)
for name in sorted(mod.funcs):
    m = re.match(r"^a__(omul|wmul)__([IU])(\d+)F(\d+)$", name)
    if not m or (len(sys.argv) > 2 and sys.argv[2] not in name):
        continue
    kind, sg, ib, fb = m.group(1), m.group(2), int(m.group(3)), int(m.group(4))
    try:
        r = E3.check_mul(mod, mod.resolve(name), sg == "I", ib + fb, fb, kind == "omul")
        print(name, r)
    except E3.Unsupported as e:
        print(name, "UNSUPPORTED", e)
    except Exception:
        print(name, "ERROR"); traceback.print_exc(limit=4)
