#!/bin/bash
# usage: confirm_seed2.sh <ID>   like confirm_seed.sh but without git stash (checkout / apply of the saved diff)
id=$1; wt=/tmp/seed/$id-wt; out=/tmp/seed/$id-out
cd $wt || exit 2
git diff > /tmp/seed/$id.confirm.diff
if ! diff -q /tmp/seed/$id.confirm.diff $out/patch.diff >/dev/null; then echo "NOTE: patch.diff differs from worktree diff"; fi
t=$(cargo test --offline --lib 2>&1 | grep "^test result" | head -1); echo "tests with change: $t"
cd $out/demo && CARGO_TARGET_DIR=$out/target timeout 600 cargo run --offline >/tmp/seed/$id.with.log 2>&1; w=$?; echo "demo with change: exit $w"
git -C $wt checkout -- .
cd $out/demo && CARGO_TARGET_DIR=$out/target timeout 600 cargo run --offline >/tmp/seed/$id.without.log 2>&1; wo=$?; echo "demo without change: exit $wo"
git -C $wt apply /tmp/seed/$id.confirm.diff
[ "$w" != "0" ] && [ "$wo" = "0" ] && echo "$t" | grep -q "66 passed; 0 failed" && echo "CONFIRMED $id" || echo "NOT CONFIRMED $id"
