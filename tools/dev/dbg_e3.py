import sys,re,os
sys.path.insert(0, os.path.join(os.path.dirname(os.path.abspath(__file__)), ".."))
from vf import llir, engine_e3 as E3
def show_atom(A,i):
    a=A.atoms[i]; k=a["key"]
    if k[0]=="arg": return "x%d"%k[1]
    if k[0]=="fl": return "fl(%s,%d)"%(show_poly(A,a["R"]),a["k"])
    if k[0]=="w": return "W%d"%i
    return str(k)
def show_poly(A,p):
    return " + ".join(("%d*"%c if c!=1 else "")+"*".join(show_atom(A,a) for a in m) if m else str(c) for m,c in sorted(p.items())) or "0"
def show_c(A,c):
    if c[0]=="lt0": return "(%s < 0)"%show_poly(A,c[1])
    if c[0]=="k": return str(c[1])
    if c[0]=="not": return "!"+show_c(A,c[1])
    if c[0]=="thr": return "(%s < %d)"%(show_poly(A,dict(c[1])),c[2])
    return "(%s %s %s)"%(show_c(A,c[1]),c[0],show_c(A,c[2]))
ll, nm = sys.argv[1], sys.argv[2]
mod = llir.Module(ll, want_calls=False)
m = re.match(r"^a__(omul|wmul)__([IU])(\d+)F(\d+)$", nm)
signed = m.group(2) == "I"; w = int(m.group(3)) + int(m.group(4)); F = int(m.group(4))
it = E3.Interp(mod, mod.resolve(nm), signed); it.run(); A = it.A
flag = it.stores.get(16)
fc = flag[1]
a0 = A.ids[("arg",1)]; a1 = A.ids[("arg",2)]
P = {tuple(sorted((a0,a1))):1}
sig = E3.cases(A, it, [it.stores[0], fc])
if signed:
    T = E3.padd(A.fl(P, w-1+F), A.fl(P, w+F), -1)
    tc = E3.c_or(("lt0", T), ("lt0", E3.pscale(T, -1)))
else:
    tc = E3.c_not(("lt0", E3.padd(P, E3.pconst(-(1 << (w+F))))))
for s in sig:
    used=set(); c1 = E3.canon_cond(A,fc,s,used); c2 = E3.canon_cond(A,tc,s,used)
    print("sigma", s, "equivalent" if E3.equivalent(c1,c2) else "DIFFERENT")
    print("   lib:", show_c(A,c1)[:900])
    print("   tgt:", show_c(A,c2)[:500])
