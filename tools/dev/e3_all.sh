#!/bin/bash
# usage: e3_all.sh <repo> [stride]   -- E3 verdicts for 128-bit overflowing_mul / wrapping_mul layouts
repo=$1; stride=${2:-1}
lays=$(python3 -c "print(','.join('%s%dF%d' % (s, 128-f, f) for s in 'IU' for f in range(1,129,$stride)))")
cd /verif
ll=$(VERIF_REPO=$repo python3 tools/dev/dev_alg.py $lays 2>&1 | tail -1)
python3 tools/dev/try_e3.py $ll | awk '{print $2,$3,$4}' | sort | uniq -c
