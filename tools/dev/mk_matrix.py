"""Developer tool: render the seeded-change matrix (from seeded/*/meta.json) as markdown for DESIGN.md section 9.6."""
import json, glob, os, re, sys
rows = []
for p in sorted(glob.glob("/verif/seeded/*/meta.json")):
    m = json.load(open(p))
    cr = m.get("check_run", {})
    rnd = re.search(r"round (\d+)", m.get("origin", "") + " " + json.dumps(m))
    first = cr.get("first_report", "").strip()
    mm = re.search(r"\[([^\]]+)\]: ([^ ]+?\|[^-]*?) -- ", first)
    eng = ""
    if mm:
        key = mm.group(2).strip()
        key = re.sub(r"substrate_fixed::", "", key)
        eng = "%s `%s`" % (mm.group(1).split(":")[0], key[:110])
    elif first.startswith("OK"):
        eng = ""
    rows.append((m.get("name"), m.get("property"), (rnd.group(1) if rnd else "1-5"), m.get("needs_to_manifest", "")[:170].replace("|", "/"),
                 "caught" if cr.get("caught") else "**missed**", eng.replace("|", "\\|"), cr.get("history", "")))
print("| seed | prop. | round | what it needs to manifest | result | first reporting engine and construct |")
print("|---|---|---|---|---|---|")
for r in rows:
    res = r[4] + (" (after strengthening)" if r[6] and "missed when first run" in r[6] and r[4] == "caught" else "")
    print("| %s | %s | %s | %s | %s | %s |" % (r[0], r[1], r[2], r[3], res, r[5]))
c = sum(1 for r in rows if r[4] == "caught")
print()
print("%d seeds, %d caught, %d missed." % (len(rows), c, len(rows) - c))
