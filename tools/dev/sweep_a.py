"""Developer tool: run Engine A over parts and print residual keys (not a check)."""
import sys, os, collections, json, time
sys.path.insert(0, os.path.join(os.path.dirname(os.path.abspath(__file__)), ".."))
from vf import api, plan, facts, engine_a, common as C

tier = sys.argv[1] if len(sys.argv) > 1 else "quick"
parts = sys.argv[2].split(",") if len(sys.argv) > 2 else plan.PARTS
cfg = sys.argv[3] if len(sys.argv) > 3 else "on"
t0 = time.time()
ap = api.Api()
pl = plan.Plan(ap, tier)
crates = []
for p in parts:
    crates += pl.crates(p)
print("crates", len(crates), "roots", sum(len(c.roots) for c in crates), file=sys.stderr)
F = facts.engine_a_facts(cfg, crates, ap)
keys = collections.defaultdict(lambda: {"roots": set(), "pos": set(), "ex": None, "cls": collections.Counter()})
libs = collections.Counter()
dropped = 0
missing = 0
for sym, e in F.items():
    if e["dropped"]:
        dropped += 1
        continue
    if e["res"] is None:
        missing += 1
        continue
    for l in e["res"]["libs"]:
        libs[l] += 1
    for st in e["res"]["sites"]:
        k = engine_a.site_key(st)
        d = keys[k]
        d["roots"].add(sym)
        d["pos"].add(st["pos"])
        d["cls"][e["meta"]["cls"] + ("g" if e["meta"].get("guard") else "")] += 1
        if d["ex"] is None:
            d["ex"] = (sym, st["chain"])
out = {}
for k in sorted(keys):
    d = keys[k]
    print("%5d roots %2d pos %s  %s\n        e.g. %s: %s" % (len(d["roots"]), len(d["pos"]), dict(d["cls"]), k, d["ex"][0], d["ex"][1][:300]))
    out[k] = {"roots": len(d["roots"]), "pos": sorted(d["pos"]), "cls": dict(d["cls"]), "ex": d["ex"]}
print("dropped", dropped, "missing", missing)
print("LIBS")
for l, n in libs.most_common():
    print(n, l)
json.dump({"keys": out, "libs": dict(libs)}, open(os.path.join(C.WORK, "sweep_%s_%s.json" % (tier, cfg)), "w"), indent=1)
print("total %.1fs" % (time.time() - t0), file=sys.stderr)
