#!/usr/bin/env python3
"""MANIFEST.setup_cmd: check the toolchains this framework needs and prime the
caches (dependency builds, rustdoc JSON, quick-tier harness IR) for the current
/repo tree, offline.  Everything is rebuilt on demand by the checks anyway;
priming only moves the cost out of the first check."""
import os
import sys
import time

sys.path.insert(0, os.path.dirname(os.path.abspath(__file__)))
from vf import common as C


def main():
    t0 = time.time()
    for cmd in (["cargo", "--version"], ["cargo", "+nightly", "--version"], ["rustc", "+nightly", "--version"]):
        p = C.run(cmd)
        print(p.stdout.strip())
    print("opt:", C.nightly_tool("opt"))
    os.makedirs(C.WORK, exist_ok=True)
    if "--no-prime" in sys.argv:
        return 0
    from vf import run_a, facts, build
    ctx = run_a.context("quick")
    crates = []
    for part in ("inh", "conv", "parse", "fmt", "ops", "cmp", "wrap", "trait", "transc"):
        crates += ctx["plan"].crates(part)
    facts.engine_a_facts("on", crates, ctx["api"])
    build.build("loops", ctx["plan"].loop_crates())
    from vf import run_e, engine_s, engine_t
    run_e.prime("quick")
    engine_s.mir_text()
    engine_t.run(C.Report("C04", "quick"), "quick", "prime")
    print("setup done in %.1fs" % (time.time() - t0))
    return 0


if __name__ == "__main__":
    sys.exit(main())
