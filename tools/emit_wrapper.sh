#!/bin/sh
# RUSTC_WORKSPACE_WRAPPER for the harness workspace: also emit LLVM IR for the
# (cdylib) harness crates; with fat LTO this is the merged post-LTO module.
exec "$@" --emit=llvm-ir
